import RLV.Model.Core
import RLV.Model.Utf8
namespace RLV.Hist
open RLV.Core

structure UItem where
  line : List Nat
  pos : Int
deriving Repr, DecidableEq

structure LH where
  pos : Int := 0
  items : List UItem := []
deriving Repr

/-- One history source (memory semantics), the editor line/cursor and the undo bookkeeping.
`lhs` maps a line key (−1 = the line being typed, k = history index) to its undo history. -/
structure St where
  line : List Nat := []
  cur : Cur := ⟨0, -1⟩
  src : List (List Nat) := []          -- history entries, oldest first
  hpos : Int := -1
  cpos : Int := -1
  skip : Bool := false
  undoing : Bool := false
  lhs : List (Int × LH) := []
  preservePoint : Bool := false
deriving Repr

def lineKey (s : St) : Int := if s.hpos > -1 then (s.src.length : Int) - s.hpos else -1

def getLH (s : St) (k : Int) : LH := (s.lhs.lookup k).getD {}
def setLH (s : St) (k : Int) (h : LH) : St :=
  { s with lhs := (k, h) :: s.lhs.filter (fun e => e.1 != k) }

/-- `Cursor.Set` -/
def curSet (l : List Nat) (c : Cur) (p : Int) : Cur :=
  checkAppend l { c with pos := if p < 0 then 0 else if p > len l then len l else p }

def reset (s : St) : St :=
  let s := { s with skip := false }
  let k := lineKey s
  let h := getLH s k
  let s := if !s.undoing then setLH s k { h with pos := 0 } else setLH s k h
  { s with undoing := false }

/-- `Save`, last stage, for a given (already clamped) position `p` and number `u` of undone items to
drop: truncate the redo branch (`items[:len-u]`, a Go reslice) and append the buffer -/
def saveAppendAt (s : St) (k : Int) (h : LH) (p u : Int) : G St :=
  if (h.items.length : Int) - u < 0 then .error (.oob "undo truncate")
  else if (h.items.length : Int) - u > h.items.length then .error (.beyond "undo truncate")
  else
    match checkCommand s.line (curSet s.line ⟨0, -1⟩ (checkAppend s.line s.cur).pos) with
    | .error e => .error e
    | .ok cur1 =>
      .ok (reset (setLH s k { pos := p, items := h.items.take ((h.items.length : Int) - u).toNat ++ [⟨s.line, (checkAppend s.line cur1).pos⟩] }))

/-- how many items `Save` drops: those newer than the state being shown, and that state too unless
the line has been changed from it (`items[len-pos]`, indexed only when `pos > 0`) -/
def undoneCount (s : St) (h : LH) (p : Int) : G Int :=
  if p > 0 then
    match h.items[((h.items.length : Int) - p).toNat]? with
    | none => .error (.oob "undo shown item")
    | some it => .ok (if (h.items.length : Int) - p < 0 then p else if it.line ≠ s.line then p - 1 else p)
  else .ok p

def saveAppend (s : St) (k : Int) (h : LH) : G St :=
  let p := if h.pos > (h.items.length : Int) then (h.items.length : Int) else h.pos
  match undoneCount s h p with
  | .error e => .error e
  | .ok u => saveAppendAt s k h p u

/-- `Sources.Save` (stage-wise: skip / same text → cursor update / truncate and append) -/
def save (s : St) : G St :=
  if s.skip then .ok (reset s) else
  let k := lineKey s
  let h := getLH s k
  match h.items.getLast? with
  | some it =>
    if it.line = s.line then
      .ok (reset (setLH s k { h with items := h.items.dropLast ++ [{ it with pos := (checkAppend s.line s.cur).pos }] }))
    else saveAppend s k h
  | none => saveAppend s k h

/-- the skip-equal loop of `Undo`, by structural recursion: `pos` grows by one per step and the loop
ends when it passes the length, so `items.length + 2` steps of fuel are never exhausted
(a negative `pos` indexes `items[len - pos]` out of range at once) -/
def undoFind : Nat → LH → List Nat → G (LH × Option UItem)
  | 0, h, _ => pure ({ h with pos := h.items.length }, none)
  | fuel + 1, h, line =>
    let pos := h.pos + 1
    if pos > (h.items.length : Int) then pure ({ h with pos := h.items.length }, none)
    else
      let idx := (h.items.length : Int) - pos
      if idx < 0 ∨ idx ≥ h.items.length then throw (.oob "undo index") else
      match h.items[idx.toNat]? with
      | none => throw (.oob "undo index")
      | some u => if u.line ≠ line then pure ({ h with pos := pos }, some u) else undoFind fuel { h with pos := pos } line

def undoLoop (h : LH) (line : List Nat) : G (LH × Option UItem) := undoFind (h.items.length + 2) h line

def undo (s : St) : G St := do
  let s := { s with skip := true, undoing := true }
  let k := lineKey s
  let h := getLH s k
  if h.items.isEmpty then return setLH s k h
  let (h', u) ← undoLoop h s.line
  let s := setLH s k h'
  match u with
  | none => return s
  | some u => return { s with line := u.line, cur := curSet u.line s.cur u.pos }

def redo (s : St) : G St := do
  let s := { s with skip := true, undoing := true }
  let k := lineKey s
  let h := getLH s k
  if h.items.isEmpty then return setLH s k h
  let h := { h with pos := h.pos - 1 }
  if h.pos < 1 then return setLH s k { h with pos := 0 }
  let s := setLH s k h
  let idx := (h.items.length : Int) - h.pos
  if idx < 0 ∨ idx ≥ h.items.length then throw (.oob "redo index")
  match h.items[idx.toNat]? with
  | some u => return { s with line := u.line, cur := curSet u.line s.cur u.pos }
  | none => throw (.oob "redo index")

end RLV.Hist

namespace RLV.Hist
open RLV.Core

/-- Go `strings.TrimSpace` on runes (ASCII + Unicode spaces used by Go: generated table in the real model;
prototype: ASCII whitespace, NEL, NBSP). -/
def isSpaceR (c : Nat) : Bool :=
  c == 9 || c == 10 || c == 11 || c == 12 || c == 13 || c == 32 || c == 0x85 || c == 0xA0
def trim (l : List Nat) : List Nat := ((l.dropWhile isSpaceR).reverse.dropWhile isSpaceR).reverse

/-- memory.GetLine: `none` is the error value `errOutOfRangeIndex` -/
def getLine (src : List (List Nat)) (i : Int) : Option (List Nat) :=
  if src.isEmpty then some [] else
  if i < 0 ∨ i ≥ src.length then none else some (src.getD i.toNat [])

/-- the body of the loop of `Sources.Write` for one memory source. maxEntries: −1 unset.
Returns the new source and whether the loop stops (never, since the `fix:` of the early return). -/
def writeOne (maxEntries : Int) (src : List (List Nat)) (line : List Nat) : G (List (List Nat) × Bool) := do
  if maxEntries = 0 ∨ (maxEntries > 0 ∧ (src.length : Int) ≥ maxEntries) then return (src, false)
  match getLine src ((src.length : Int) - 1) with
  | some last => if last ≠ [] ∧ trim last = trim line then return (src, false) else return (src ++ [line], false)
  | none => return (src ++ [line], false)     -- `err != nil`: the duplicate test is skipped

def setLineCursorMatch (s : St) (next : List Nat) : St :=
  let cp := (checkAppend s.line s.cur).pos
  let cpos := if s.cpos = -1 ∧ len s.line > 0 ∧ cp ≤ len s.line then cp else s.cpos
  let s := { s with cpos := cpos, line := next }
  if s.preservePoint ∧ len s.line > s.cpos ∧ s.cpos ≠ -1 then { s with cur := curSet s.line s.cur s.cpos }
  else { s with cur := curSet s.line s.cur (len s.line) }

def restoreLineBuffer (s : St) : St :=
  let s := { s with hpos := -1 }
  let h := getLH s (-1)      -- hist[h.hpos] with hpos = -1
  match h.items.getLast? with
  | none => s
  | some u => { s with line := u.line, cur := curSet u.line s.cur u.pos }

/-- `Walk`, once the position has moved (`s.hpos` is the new one) -/
def walkTo (s : St) : St :=
  let n : Int := s.src.length
  if s.hpos < -1 then { s with hpos := -1 }
  else if s.hpos = 0 then restoreLineBuffer s
  else
    let s := if s.hpos > n then { s with hpos := n } else s
    match (getLH s (lineKey s)).items.getLast? with
    | some it => setLineCursorMatch s it.line            -- the line as it was left (edited overlay)
    | none =>
      match getLine s.src (n - s.hpos) with
      | some l => setLineCursorMatch s l
      | none => s                                         -- error hint, buffer untouched

/-- leaving the line being typed: its state is saved first -/
def leaveMain (s : St) (pos : Int) : G St :=
  if s.hpos = -1 ∧ pos > 0 then
    match save { s with skip := false } with
    | .error e => .error e
    | .ok t => .ok { t with cpos := -1, hpos := 0 }
  else .ok s

/-- Sources.Walk -/
def walk (s : St) (pos : Int) : G St :=
  let n : Int := s.src.length
  if n = 0 then .ok s
  else if pos = 0 then .ok s
  else if s.hpos = n ∧ pos = 1 then .ok s
  else
    match leaveMain s pos with
    | .error e => .error e
    | .ok s1 => .ok (walkTo { s1 with hpos := s1.hpos + pos })

end RLV.Hist

namespace RLV.Hist
open RLV RLV.Core

/-- the search text of `Sources.match`: the match line as a Go string, cut at the cursor — `cline[:cur.Pos()]`
slices BYTES with a rune position, as the code does -/
def searchText (line : List Nat) (cpos : Int) : List Nat :=
  if cpos < len line then (utf8 line).take cpos.toNat else utf8 line

/-- literal infix test (`regexp.QuoteMeta` + `MatchString`) -/
def isInfix (p t : List Nat) : Bool := (List.range (t.length + 1)).any fun i => p.isPrefixOf (t.drop i)

/-- the test applied to one history line (bytes) -/
def lineMatches (regex : Bool) (hist cline : List Nat) : Bool :=
  if regex then isInfix cline hist
  else !(decide (hist.length < cline.length) || (!cline.isEmpty && !cline.isPrefixOf hist))

/-- the iteration clauses of `Sources.match`: `done(i)` and `move(i)` -/
def moreToSee (fwd : Bool) (p n : Int) : Bool := if fwd then decide (p < n) else decide (p > 0)
def nextPos (fwd : Bool) (p : Int) : Int := if fwd then p + 1 else p - 1

/-- the loop of `Sources.match` from position `histPos`: the index of the first matching entry -/
def matchLoop (src : List (List Nat)) (cline : List Nat) (fwd regex : Bool) : Nat → Int → Option Int
  | 0, _ => none
  | f+1, p =>
    if moreToSee fwd p src.length then
      match getLine src (nextPos fwd p) with
      | none => none                 -- `GetLine` error: give up
      | some h =>
        if lineMatches regex (utf8 h) cline then some (nextPos fwd p)
        else matchLoop src cline fwd regex f (nextPos fwd p)
    else none

/-- `Sources.InsertMatch(line, cur, usePos, fwd, regexp)` with an explicit line and cursor to match
against (the buffer itself when the command passes it) -/
def insertMatch (s : St) (mline : List Nat) (mpos : Int) (usePos fwd regex : Bool) : St :=
  let n : Int := s.src.length
  let preservePoint := mpos ≠ 0
  if fwd ∧ s.hpos ≤ -1 then { s with hpos := -1 } else
  let start : Int := if usePos ∧ s.hpos > -1 then n - s.hpos else if fwd then -1 else n
  match matchLoop s.src (searchText mline mpos) fwd regex (s.src.length + 2) start with
  | none => if fwd then restoreLineBuffer s else s
  | some p =>
    let l := s.src.getD p.toNat []
    let s := { s with hpos := n - p, line := l }
    if preservePoint then { s with cur := curSet l s.cur mpos } else { s with cur := curSet l s.cur (len l) }

end RLV.Hist
