import RLV.Model.Core
import RLV.Model.Utf8
namespace RLV.Comp
open RLV.Core

def isSp (c : Nat) : Bool := (9 ≤ c && c ≤ 13) || c == 32 || c == 0x85 || c == 0xA0

/-- `\s` of Go regexp (ASCII class) -/
def reSpace (c : Nat) : Bool := c == 9 || c == 10 || c == 12 || c == 13 || c == 32

/-- Line.SelectBlankWord -/
def selectBlankWord (l : Line) (pos : Int) : G (Int × Int) := do
  if len l = 0 then return (0, 0)
  let pos := if pos < 0 then 0 else if pos > len l then len l else pos
  let pos := if pos = len l then pos - 1 else pos
  let c0 ← at_ l pos
  -- pattern: non-space, or space if the char under pos is a space
  let m : Nat → Bool := if !reSpace c0 then (fun c => !reSpace c) else reSpace
  let rec back (f : Nat) (b : Int) : G Int :=
    match f with
    | 0 => pure b
    | f+1 =>
      if b ≥ 0 then do
        let esc ← (if b > 0 then do pure ((← at_ l (b - 1)) == 0x5c) else pure false : G Bool)
        let c ← at_ l b
        if !m c && !esc then pure b else back f (b - 1)
      else pure b
  let rec fwd (f : Nat) (e : Int) : G Int :=
    match f with
    | 0 => pure e
    | f+1 =>
      if e < len l then do
        let esc ← (if e > 0 then do pure ((← at_ l (e - 1)) == 0x5c) else pure false : G Bool)
        let c ← at_ l e
        if !m c && !esc then pure e else fwd f (e + 1)
      else pure e
  let b ← back (l.length + 2) pos
  let e ← fwd (l.length + 2) pos
  let b := b + 1
  let e := if e > 0 then e - 1 else e
  return (b, e)

def trimS (l : List Nat) : List Nat := ((l.dropWhile isSp).reverse.dropWhile isSp).reverse

/-- Engine.setPrefix with an empty PREFIX -/
def setPrefix (l : Line) (cpos : Int) : G (List Nat) := do
  -- at the beginning of the line there is no word before the cursor
  if cpos = 0 then return []
  let c := if cpos - 1 < 0 then 0 else cpos - 1
  let (b, _) ← selectBlankWord l c
  let (b, c) := if b > c then (c, b) else (b, c)
  let c := if c < len l then c + 1 else c
  if b < 0 ∨ c > len l ∨ b > c then throw (.oob "prefix slice")
  return trimS ((l.drop b.toNat).take (c - b).toNat)

/-- insertCandidate: the guard and the cursor arithmetic count runes -/
def insertCandidate (l : Line) (cpos : Int) (pfx value : List Nat) : G (Line × Int) := do
  if value.length < pfx.length then return (l, cpos)
  let plen : Int := pfx.length
  -- compCursor.Move(-len(prefix)) clamps
  let p := cpos - plen
  let p := if p < 0 then 0 else if p > len l then len l else p
  let l1 ← Core.cut l p (p + plen)
  -- InsertAt: CheckAppend then Insert at pos
  let p := if p > len l1 then len l1 else p
  let l2 ← Core.insert l1 p value
  return (l2, p + value.length)

end RLV.Comp
