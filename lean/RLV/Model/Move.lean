import RLV.Model.Kill
/-! The Emacs movement commands (emacs.go: forward-char, backward-char, forward-word, backward-word,
beginning-of-line, end-of-line) on the line/cursor state, `history-autosuggest` off (the default), with
their numeric argument `n` (the loop `for i := 1; i <= n`: a count below one moves nothing). Compared
with the real command closures on every run (`rlv-diff -model move`). -/
namespace RLV.Move
open RLV.Core RLV.Kill

/-- `Cursor.Inc`, `n` times -/
def incN (l : Line) : Nat → Int → Int
  | 0, p => p
  | n+1, p => incN l n (if p < len l then p + 1 else p)

/-- `Cursor.Dec`, `n` times -/
def decN : Nat → Int → Int
  | 0, p => p
  | n+1, p => decN n (if p > 0 then p - 1 else p)

/-- Shell.forwardChar -/
def forwardChar (s : St) (n : Int) : G St :=
  let c := checkAppend s.line s.cur
  pure { s with cur := { c with pos := incN s.line n.toNat c.pos } }

/-- Shell.backwardChar -/
def backwardChar (s : St) (n : Int) : G St :=
  pure { s with cur := { s.cur with pos := decN n.toNat s.cur.pos } }

/-- one step of Shell.forwardWord: `cursor.Move(ForwardEnd(Tokenize, cursor.Pos()) + 1)` -/
def forwardWord1 (s : St) : G St := do
  let c := checkAppend s.line s.cur
  let adj ← Tok.forwardEnd (Tok.tokenize s.line c.pos)
  return { s with cur := checkAppend s.line { c with pos := c.pos + (adj + 1) } }

def forwardWordN : Nat → St → G St
  | 0, s => pure s
  | n+1, s => do forwardWordN n (← forwardWord1 s)

/-- Shell.forwardWord -/
def forwardWord (s : St) (n : Int) : G St := forwardWordN n.toNat s

/-- one step of Shell.backwardWord -/
def backwardWord1 (s : St) : G St := do
  let c := checkAppend s.line s.cur
  let adj ← Tok.backward (Tok.tokenize s.line c.pos)
  return { s with cur := checkAppend s.line { c with pos := c.pos + adj } }

def backwardWordN : Nat → St → G St
  | 0, s => pure s
  | n+1, s => do backwardWordN n (← backwardWord1 s)

/-- Shell.backwardWord -/
def backwardWord (s : St) (n : Int) : G St := backwardWordN n.toNat s

/-- Shell.beginningOfLine (Emacs) -/
def beginningOfLine (s : St) : G St := do
  let c ← Kill.beginningOfLine s.line s.cur
  return { s with cur := c }

/-- Shell.endOfLine -/
def endOfLine (s : St) : G St := do
  let c ← Kill.endOfLineAppend s.line s.cur
  return { s with cur := c }

end RLV.Move
