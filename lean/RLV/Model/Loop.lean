import RLV.Model.Keys
import RLV.Model.Core
namespace RLV.Loop
open RLV RLV.Core

/-- Minimal shell for the typed-text property: main keymap only (no local keymap, no completer). -/
structure Sh where
  eng : Eng
  line : List Nat := []
  cur : Int := 0
  outputMeta : Bool := false
  accepted : Option (List Nat) := none

/-- strutil.Quote for the runes this prototype types (printable ASCII): itself. -/
def quote (k : Nat) : List Nat :=
  if k = 9 then [k]
  else if k > 0x7f ∧ k ≤ 0xff then [0x5e, 0x5b, k &&& 0x7f]
  else if k < 0x20 then [0x5e, k ||| 0x40]
  else [k]

/-- Shell.selfInsert (autopairs off, no completion suffix) -/
def selfInsert (sh : Sh) : G Sh :=
  match sh.eng.keys.matched with
  | [] => pure sh      -- no calling key: nothing is inserted
  | k :: _ =>
    let quoted := if sh.outputMeta ∧ k ≠ 0x1b then [k] else quote k
    let c := (checkAppend sh.line ⟨sh.cur, -1⟩).pos
    do
      let l ← Core.insert sh.line c quoted
      -- InsertAt: pos += len; Move(-len); Move(len)   (each Move clamps)
      let p1 := (checkAppend l ⟨c + quoted.length, -1⟩).pos
      let p2 := (checkAppend l ⟨p1 - quoted.length, -1⟩).pos
      let p3 := (checkAppend l ⟨p2 + quoted.length, -1⟩).pos
      pure { sh with line := l, cur := p3 }

def runCmd (name : String) (sh : Sh) : G Sh :=
  if name = "self-insert" then selfInsert sh
  else if name = "accept-line" then pure { sh with accepted := some sh.line }
  else pure sh      -- every other command: out of this prototype's scope

/-- one iteration of the Readline loop once keys are available -/
def iter (sh : Sh) : G Sh :=
  let e := { sh.eng with keys := sh.eng.keys.flushUsed }
  let r := matchMain e
  let sh := { sh with eng := r.1 }
  if r.2.2.2 then pure sh            -- prefix: wait for more
  else if r.2.2.1 then runCmd r.2.1.action sh
  else pure sh

def needRead (k : Keys) : Bool := !((!k.buf.isEmpty && !k.mustWait) || !k.mkeys.isEmpty)

/-- WaitAvailableKeys appending one read to the key buffer (convert-meta off) -/
def feed (sh : Sh) (c : List Nat) : Sh :=
  { sh with eng := { sh.eng with keys := { sh.eng.keys with buf := sh.eng.keys.buf ++ c } } }

/-- run until the line is accepted or the input is exhausted (`none`) -/
def run : Nat → List (List Nat) → Sh → G (Option (List Nat))
  | 0, _, _ => pure none
  | fuel+1, chunks, sh =>
    match sh.accepted with
    | some l => pure (some l)
    | none =>
      if needRead sh.eng.keys then
        match chunks with
        | [] => pure none
        | c :: cs =>
          if c.isEmpty then run fuel cs sh     -- a read of zero bytes: WaitAvailableKeys reads again
          else do let sh' ← iter (feed sh c); run fuel cs sh'
      else do let sh' ← iter sh; run fuel chunks sh'

end RLV.Loop
