namespace RLV.Conds

/-- Directives after lexing. `cond` carries the already evaluated `$if` test. -/
inductive Dir where
  | ifc (e : Bool)
  | els
  | endif
  | act (a : Nat)          -- a bind / set, identified by a number
deriving DecidableEq, Repr

/-- Pinned parser: pushes the raw result, `$else` flips the top. -/
def stepPinned (st : List Bool × List Nat) : Dir → List Bool × List Nat
  | .ifc e => (e :: st.1, st.2)
  | .els => (match st.1 with | [_] => st.1 | t :: r => (!t) :: r | [] => [], st.2)
  | .endif => (match st.1 with | [_] => st.1 | _ :: r => r | [] => [], st.2)
  | .act a => (st.1, if st.1.head? = some true then st.2 ++ [a] else st.2)

/-- Repaired parser: a level is active only if its parent is. A level is (raw, active). -/
def stepFixed (st : List (Bool × Bool) × List Nat) : Dir → List (Bool × Bool) × List Nat
  | .ifc e => ((e, e && (st.1.head?.map (·.2)).getD true) :: st.1, st.2)
  | .els => (match st.1 with
      | (r, _) :: rest => (!r, !r && (rest.head?.map (·.2)).getD true) :: rest
      | [] => [], st.2)
  | .endif => (st.1.tail, st.2)
  | .act a => (st.1, if (st.1.head?.map (·.2)).getD true then st.2 ++ [a] else st.2)

/-- Structural programs and their meaning. -/
inductive Blk where
  | act (a : Nat)
  | ite (e : Bool) (thn els : List Blk)

mutual
  def Blk.flat : Blk → List Dir
    | .act a => [.act a]
    | .ite e t f => [.ifc e] ++ flatL t ++ [.els] ++ flatL f ++ [.endif]
  def flatL : List Blk → List Dir
    | [] => []
    | b :: bs => b.flat ++ flatL bs
end

mutual
  def Blk.spec (on : Bool) : Blk → List Nat
    | .act a => if on then [a] else []
    | .ite e t f => specL (on && e) t ++ specL (on && !e) f
  def specL (on : Bool) : List Blk → List Nat
    | [] => []
    | b :: bs => b.spec on ++ specL on bs
end

def runFixed (st : List (Bool × Bool) × List Nat) (ds : List Dir) := ds.foldl stepFixed st

def act? (stk : List (Bool × Bool)) : Bool := (stk.head?.map (·.2)).getD true

mutual
  theorem run_blk (b : Blk) : ∀ (stk : List (Bool × Bool)) (out : List Nat),
      runFixed (stk, out) b.flat = (stk, out ++ b.spec (act? stk)) := by
    intro stk out
    cases b with
    | act a =>
      simp [Blk.flat, runFixed, stepFixed, Blk.spec, act?]
      split <;> simp_all
    | ite e t f =>
      simp only [Blk.flat, runFixed, List.foldl_append, List.foldl_cons, List.foldl_nil]
      have h1 := run_blks t ((e, e && act? stk) :: stk) out
      simp only [runFixed] at h1
      simp only [stepFixed]
      rw [show (stk.head?.map (·.2)).getD true = act? stk from rfl, h1]
      have h2 := run_blks f ((!e, !e && act? stk) :: stk) (out ++ specL (act? ((e, e && act? stk) :: stk)) t)
      simp only [runFixed] at h2
      simp only [show (stk.head?.map (·.2)).getD true = act? stk from rfl]
      rw [h2]
      simp [Blk.spec, act?, Bool.and_comm, List.append_assoc]
  theorem run_blks (bs : List Blk) : ∀ (stk : List (Bool × Bool)) (out : List Nat),
      runFixed (stk, out) (flatL bs) = (stk, out ++ specL (act? stk) bs) := by
    intro stk out
    cases bs with
    | nil => simp [flatL, runFixed, specL]
    | cons b bs =>
      simp only [flatL, runFixed, List.foldl_append]
      have h1 := run_blk b stk out
      simp only [runFixed] at h1
      rw [h1]
      have h2 := run_blks bs stk (out ++ b.spec (act? stk))
      simp only [runFixed] at h2
      rw [h2]
      simp [specL, List.append_assoc]
end

/-- C13 core: on well-nested programs the repaired step function fires exactly the
directives whose enclosing conditions all hold. -/
theorem exec_eq_spec (bs : List Blk) : (runFixed ([], []) (flatL bs)).2 = specL true bs := by
  rw [run_blks]; simp [act?]

/-- The pinned step function leaks: inner `$if true` inside an inactive outer `$if`. -/
example : ((([.ifc false, .ifc true, .act 7, .endif, .endif] : List Dir).foldl stepPinned ([true], [])).2 = [7]) := by
  decide

end RLV.Conds
