namespace RLV.Disp

/-- output tokens (SGR/colour sequences are not modelled) -/
inductive Tk where
  | hide | show_ | dsr | el0 | el1 | ed0 | crlf
  | cub (n : Nat) | cuf (n : Nat) | cuu (n : Nat) | cud (n : Nat)
  | text (s : List Nat)
deriving Repr, DecidableEq

def mv (f : Nat → Tk) (n : Int) : List Tk := if n < 1 then [] else [f n.toNat]

def splitNL (l : List Nat) : List (List Nat) :=
  let r := l.foldl (fun (acc : List (List Nat) × List Nat) c =>
    if c = 10 then (acc.1 ++ [acc.2], []) else (acc.1, acc.2 ++ [c])) ([], [])
  r.1 ++ [r.2]

/-- strutil.LineSpan for width-1 ASCII text -/
def lineSpan (w : Nat) (line : List Nat) (idx indent : Nat) : Nat × Nat :=
  let n := line.length + indent
  (n % w, n / w + (if idx ≠ 0 then 1 else 0))

def coordsLine (w : Nat) (l : List Nat) (indent : Nat) : Nat × Nat :=
  let r := (splitNL l).foldl (fun (acc : Nat × Nat × Nat) ln =>
    let (x, y) := lineSpan w ln acc.2.2 indent
    (x, acc.2.1 + y, acc.2.2 + 1)) (0, 0, 0)
  (r.1, r.2.1)

/-- positions of '\n' in `l ++ "\n"` (ASCII: byte offsets = rune indices) -/
def newlines (l : List Nat) : List Nat :=
  ((l ++ [10]).zipIdx.filter (fun (p : Nat × Nat) => p.1 = 10)).map (fun (p : Nat × Nat) => p.2)

def coordsCursor (w : Nat) (l : List Nat) (pos indent : Nat) : Nat × Nat :=
  let rec go (nls : List Nat) (idx bpos usedY : Nat) : Nat × Nat :=
    match nls with
    | [] => (0, 0)
    | nl :: rest =>
      if nl < pos then
        let ln := (l.drop bpos).take (nl - bpos)
        let (_, y) := lineSpan w ln idx indent
        go rest (idx + 1) (nl + 1) (usedY + y)
      else
        let ln := (l.drop bpos).take (pos - bpos)
        let (x, y) := lineSpan w ln idx indent
        (x, usedY + y)
  go (newlines l) 0 0 0

def sgrLenReset := 4   -- ESC[0m
def sgrLenBgDef := 5   -- ESC[49m
def elLen := 4         -- ESC[0K / ESC[1K

/-- core.DisplayLine on (highlighted line ++ Reset ++ EL0 if `clr`), tokens only; `clr` = the line does
not end on the last column (`Engine.displayLine`) -/
def displayLine (w indent : Nat) (l : List Nat) (clr : Bool := true) : List Tk :=
  let lines := splitNL l
  let last := lines.length - 1
  (lines.zipIdx.map fun (ln, num) =>
    let isLast := num = last
    -- the sub-line ends on the last column of a row
    let atMargin := (ln.length + indent) % w == 0 && ln.length + indent > 0
    (if num > 0 then mv .cuf indent ++ [.el1] else []) ++
    (if ln.isEmpty then [] else [.text ln]) ++
    (if isLast && clr then [.el0] else []) ++
    (if !isLast then (if atMargin then [.crlf, .el0] else [.el0]) ++ [.crlf] else [])).flatten

def countNL (l : List Nat) : Nat := (l.filter (· = 10)).length

/-- display.Engine.Refresh, default configuration, prompt `prompt` on one row, no helpers -/
def refresh (w : Nat) (prompt : List Nat) (sec : List Nat) (prevCursorRow : Nat) (primaryPrinted : Bool)
    (l : List Nat) (pos : Nat) : List Tk :=
  let startCols := prompt.length
  let (cursorCol, cursorRow) := coordsCursor w l pos startCols
  let (lineCol, lineRows) := coordsLine w l startCols
  -- the line ends on the last column of a row (column 0 with nothing before it is not that)
  let atMargin := lineCol == 0 && ((splitNL l).getLast?.getD []).length + startCols > 0
  -- the rows on which the last line of the buffer continues when it is wrapped (`lastLineRows`): the secondary
  -- prompt goes on its first row
  let lastRows : Nat := (lineSpan w ((splitNL l).getLast?.getD []) 0 startCols).2
  [.hide] ++ mv .cub w ++ (if !primaryPrinted then mv .cuu prevCursorRow else []) ++
  (if prompt.isEmpty then [] else [.text prompt]) ++ [.dsr] ++
  displayLine w startCols l (!atMargin) ++
  (if atMargin then [.crlf, .el0] else []) ++
  -- displayMultilinePrompts
  (if countNL l > 1 then mv .cuu lineRows ++ mv .cub w ++ mv .cud lineRows else []) ++
  (if countNL l > 0 then mv .cuu lastRows ++ mv .cub w ++ (if sec.length ≤ startCols then [.text sec] else []) ++
      mv .cud lastRows ++ mv .cub w ++ mv .cuf lineCol else []) ++
  -- displayHelpers
  [.crlf, .el0, .ed0] ++ mv .cub w ++
  -- cursorHintToLineStart
  mv .cuu 1 ++ mv .cuu ((lineRows : Int) - cursorRow) ++
  mv .cub cursorCol ++ mv .cuu cursorRow ++ mv .cuf startCols ++
  -- lineStartToCursorPos
  mv .cud cursorRow ++ mv .cub w ++ mv .cuf cursorCol ++ [.show_]

def showTk : Tk → String
  | .hide => "HIDE" | .show_ => "SHOW" | .dsr => "DSR" | .el0 => "EL0" | .el1 => "EL1" | .ed0 => "ED0"
  | .crlf => "CRLF" | .cub n => s!"CUB{n}" | .cuf n => s!"CUF{n}" | .cuu n => s!"CUU{n}" | .cud n => s!"CUD{n}"
  | .text s => "T:" ++ ".".intercalate (s.map toString)

end RLV.Disp

namespace RLV.Disp

/-- display.Engine.AcceptLine, default configuration (no right prompt) -/
def acceptLine (w : Nat) (prompt : List Nat) (l : List Nat) (pos : Nat) : List Tk :=
  let startCols := prompt.length
  let (cursorCol, cursorRow) := coordsCursor w l pos startCols
  let (lineCol, lineRows) := coordsLine w l startCols
  -- CursorToLineStart (with the coordinates of the last Refresh = same line/pos)
  mv .cub cursorCol ++ mv .cuu cursorRow ++ mv .cuf startCols ++
  [.dsr] ++
  mv .cub w ++ mv .cud lineRows ++ mv .cuf lineCol ++ [.ed0] ++
  mv .cub w ++ [.crlf]

end RLV.Disp
