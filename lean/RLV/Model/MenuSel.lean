import RLV.Model.Core
namespace RLV.Menu2
open RLV.Core (G Panic)

/-- Selector state of one *plain* (non-aliased) group: shape only. -/
structure Sel where
  rows : Nat → Nat      -- length of row y
  R : Nat               -- number of rows (= maxY)
  maxX : Nat
  x : Int
  y : Int

/-- Result of a stage: either finished (`done`, `next`) or carry on. -/
inductive Res where
  | fin (s : Sel) (done next : Bool)
  | go (s : Sel)

def rowLen (s : Sel) (y : Int) : G Int :=
  if y < 0 ∨ y ≥ s.R then throw (.oob "rows[posY]") else pure (s.rows y.toNat : Int)

/-- stage 0: first use of the group -/
def st0 (s : Sel) (dx dy : Int) : Sel :=
  let s := if s.x = -1 ∧ s.y = -1 then (if dx ≠ 0 then { s with y := s.y + 1 } else { s with x := s.x + 1 }) else s
  { s with x := s.x + dx, y := s.y + dy }

/-- stage 1: column underflow -/
def st1 (s : Sel) (reverse : Bool) : G Res :=
  if s.x < 0 then
    if s.y = 0 ∧ reverse then pure (.fin { s with x := 0, y := 0 } true false)
    else do
      let rl ← rowLen s (s.y - 1)
      pure (.go { s with y := s.y - 1, x := rl - 1 })
  else pure (.go s)

/-- stage 2: row underflow -/
def st2 (s : Sel) : Res :=
  if s.y < 0 then
    if s.x = 0 then .fin { s with x := 0, y := 0 } true false
    else .go { s with y := (s.R : Int) - 1, x := s.x - 1 }
  else .go s

/-- stage 3: row overflow -/
def st3 (s : Sel) : Res :=
  if s.y > (s.R : Int) - 1 then
    if s.x < (s.maxX : Int) - 1 then .go { s with y := 0, x := s.x + 1 }
    else .fin { s with y := 0 } true true
  else .go s

/-- stage 4: column overflow (plain groups) -/
def st4 (s : Sel) : G Res := do
  let rl ← rowLen s s.y
  if s.x > rl - 1 then
    if s.y < (s.R : Int) - 1 then pure (.go { s with x := 0, y := s.y + 1 })
    else pure (.fin { s with x := 0 } true true)
  else pure (.go s)

def andThen (r : G Res) (f : Sel → G Res) : G Res := do
  match ← r with
  | .fin s d n => pure (.fin s d n)
  | .go s => f s

/-- moveSelector for plain groups -/
def move (s : Sel) (dx dy : Int) : G (Sel × Bool × Bool) := do
  let s0 := st0 s dx dy
  let r ← andThen (andThen (andThen (st1 s0 (decide (dx < 0 ∨ dy < 0))) (fun s => pure (st2 s))) (fun s => pure (st3 s))) st4
  match r with
  | .fin s d n => pure (s, d, n)
  | .go s => pure (s, false, false)

/-- Plain grid shape: `n ≥ 1` candidates in rows of `c ≥ 1`. -/
structure Plain (s : Sel) (n c : Nat) : Prop where
  hc : 0 < c
  hn : 0 < n
  hR : s.R = (n + c - 1) / c
  hrows : ∀ y, y + 1 < s.R → s.rows y = c
  hlast : s.rows (s.R - 1) = n - (s.R - 1) * c
  hmaxX : s.maxX = min c n

/-- index of the selected candidate -/
def index (s : Sel) (c : Nat) : Int := s.y * c + s.x

end RLV.Menu2
