import RLV.Model.Sel
/-! The Vi delete and yank operators on an active selection (vim.go: `viDeleteTo`, `viYankTo`, the
`case rl.selection.Active()` branch reached in visual mode and, through `RunPending`, after the motion
or text object of an operator-pending command; and the `dd` / `yy` branch). Both operators first run
`adjustSelectionPending` on the same state; delete then uses `Selection.Cut`, yank `Selection.Pop`. -/
namespace RLV.ViOps
open RLV.Core RLV.Sel

structure St where
  line : Line
  sel : S
  cur : Cur
  /-- the unnamed register (top of the kill ring) -/
  reg : List Nat := []

/-- the motions and selectors after which the pending selection includes the character under its end -/
def inclusiveAfter : List String :=
  ["vi-end-word", "vi-end-bigword", "vi-find-next-char", "vi-find-next-char-skip", "vi-find-prev-char",
   "vi-find-prev-char-skip", "vi-match", "select-in-word", "select-a-word", "select-in-blank-word",
   "select-a-blank-word", "select-in-shell-word", "select-a-shell-word", "vi-select-inside", "vi-change-to"]

/-- `adjustSelectionPending` (`activeCmd`: the command that has just run) -/
def adjust (activeCmd : String) (s : S) : S :=
  if !s.active then s else if inclusiveAfter.contains activeCmd then visual s false else s

/-- `Buffers.Write`: an empty text writes nothing -/
def write (reg t : List Nat) : List Nat := if t.isEmpty then reg else t

/-- `viDeleteTo`, active-selection branch -/
def deleteTo (st : St) (activeCmd : String) : G St := do
  let (t, l', s') ← cut st.line (adjust activeCmd st.sel) st.cur
  pure { st with line := l', sel := s', reg := write st.reg t }

/-- `viYankTo`, active-selection branch -/
def yankTo (st : St) (activeCmd : String) : G St := do
  let (t, _, _) ← pop st.line (adjust activeCmd st.sel) st.cur
  pure { st with sel := reset st.sel, reg := write st.reg t }

/-- `dd` and `yy`: mark at the cursor, visual-line selection, then cut / pop; a final newline is added
to what is stored when missing -/
def lineSel (st : St) : S := visual (mark st.line st.sel st.cur.pos) true
def withNL (t : List Nat) : List Nat := if !t.isEmpty ∧ t.getLast? ≠ some 10 then t ++ [10] else t

def deleteLine (st : St) : G St := do
  let (t, l', s') ← cut st.line (lineSel st) st.cur
  pure { st with line := l', sel := s', reg := write st.reg (withNL t) }

def yankLine (st : St) : G St := do
  let (t, _, _) ← pop st.line (lineSel st) st.cur
  pure { st with sel := reset st.sel, reg := write st.reg (withNL t) }

end RLV.ViOps
