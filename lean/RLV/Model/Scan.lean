import RLV.Model.Unesc
import RLV.Model.Utf8
import RLV.Model.Core
namespace RLV.Inputrc
open RLV.Core (G Panic)

/-- prototype Unicode predicates (the real model uses generated tables) -/
def isSpaceU (c : Nat) : Bool :=
  (9 ≤ c && c ≤ 13) || c == 32 || c == 0x85 || c == 0xA0 || c == 0x1680 ||
  (0x2000 ≤ c && c ≤ 0x200a) || c == 0x2028 || c == 0x2029 || c == 0x202f || c == 0x205f || c == 0x3000
def isControlU (c : Nat) : Bool := c < 0x20 || (0x7f ≤ c && c ≤ 0x9f)
def toLowerU (c : Nat) : Nat :=
  if 0x41 ≤ c && c ≤ 0x5a then c + 32
  else if (0xc0 ≤ c && c ≤ 0xde) && c != 0xd7 then c + 32 else c
def toUpperU (c : Nat) : Nat :=
  if 0x61 ≤ c && c ≤ 0x7a then c - 32
  else if c == 0xb5 then 0x39c
  else if (0xe0 ≤ c && c ≤ 0xfe) && c != 0xf7 then c - 32
  else if c == 0xff then 0x178 else c

abbrev RS := Array Nat

def grabA (r : RS) (i e : Nat) : Nat := if i < e then r.getD i 0 else 0

/-- Go index `r[i]` -/
def idx (r : RS) (i : Nat) : G Nat :=
  if h : i < r.size then pure r[i] else throw (.oob "rune index")

def findNonSpace (r : RS) (i e : Nat) : G Nat := do
  let mut i := i
  for _ in [0:e + 1] do
    if i < e then
      let c ← idx r i
      if isSpaceU c then i := i + 1 else break
    else break
  return i

def endTok (c : Nat) : Bool := c == 0x23 || isSpaceU c || isControlU c

def findEnd (r : RS) (i e : Nat) : Nat := Id.run do
  let mut i := i
  let mut c := grabA r (i + 1) e
  for _ in [0:e + 1] do
    if i < e && !endTok c then
      c := grabA r (i + 1) e
      i := i + 1
    else break
  return i

def findStringEnd (r : RS) (pos e : Nat) : G (Nat × Bool) := do
  let quote ← idx r pos
  let mut p := pos + 1
  for _ in [0:e + 1] do
    if p < e then
      let c ← idx r p
      if c == 0x5c then p := p + 2
      else if c == quote then return (p + 1, true)
      else p := p + 1
    else break
  return (p, false)

inductive Tok | none | bind | bindMacro | set | construct
deriving Repr, DecidableEq

inductive PErr | bindQuote | missingColon | macroQuote | unknownModifier
deriving Repr, DecidableEq

def Tok.name : Tok → String
  | .none => "none" | .bind => "bind" | .bindMacro => "bindMacro" | .set => "set" | .construct => "construct"
def PErr.name : PErr → String
  | .bindQuote => "bindQuote" | .missingColon => "missingColon" | .macroQuote => "macroQuote"
  | .unknownModifier => "unknownModifier"

def sliceS (r : RS) (a b : Nat) : G (List Nat) :=
  if a ≤ b ∧ b ≤ r.size then pure ((r.toList.drop a).take (b - a)) else throw (.oob "slice")

def unescRange (r : RS) (i e : Nat) : G (List Nat) := do
  -- unescapeRunes(r, i, end): `if len(r) == 1 return string(r)`; else loop over [i,end) with grab bounded by end
  if r.size = 1 then return r.toList
  if e < i then return []   -- loop does not run
  let body ← sliceS r i e
  -- grab is bounded by `end`, so look-ahead never sees runes ≥ end: working on the slice is exact
  return unescF toUpperU body.length body

def readSymbols (r : RS) (pos e : Nat) (tok : Tok) (allowStrings : Bool) : G (List Nat × List Nat × Tok) := do
  let start ← findNonSpace r pos e
  let p := findEnd r start e
  let val ← sliceS r start p
  let start ← findNonSpace r p e
  let c := grabA r start e
  let mut ok := false
  let mut p2 := p
  if allowStrings || c == 0x22 || c == 0x27 then
    let (ep, o) ← findStringEnd r start e
    ok := o
    if o then p2 := ep
  if !allowStrings || !ok then p2 := findEnd r start e
  let v ← sliceS r start p2
  return (val, v, tok)

def lowerS (l : List Nat) : List Nat := l.map toLowerU

def decodeKey (r : RS) (pos e : Nat) : G (Except PErr (List Nat × Nat)) := do
  let start := pos
  let mut p := pos
  let mut c := grabA r (p + 1) e
  for _ in [0:e + 1] do
    if p < e && c != 0x3a && !endTok c then
      c := grabA r (p + 1) e
      p := p + 1
    else break
  let raw ← sliceS r start p
  -- strings.ToLower then byte-wise modifier stripping; modifiers are ASCII so rune-wise is exact
  let mut v := lowerS raw
  let mut isMeta_ := false
  let mut control := false
  for _ in [0:raw.length + 1] do
    match v.idxOf? 0x2d with
    | none => break
    | some i =>
      let m := v.take i
      if m == "control".toList.map Char.toNat || m == "ctrl".toList.map Char.toNat || m == "c".toList.map Char.toNat then control := true
      else if m == "meta".toList.map Char.toNat || m == "m".toList.map Char.toNat then isMeta_ := true
      else return .error .unknownModifier
      v := v.drop (i + 1)
  let s := String.mk (v.map Char.ofNat)
  if v.isEmpty then return .ok ([], p)
  let ch : Nat :=
    if s == "delete" || s == "del" || s == "rubout" then 0x7f
    else if s == "escape" || s == "esc" then 0x1b
    else if s == "newline" || s == "linefeed" || s == "lfd" then 10
    else if s == "return" || s == "ret" then 13
    else if s == "tab" then 9
    else if s == "space" || s == "spc" then 32
    else if s == "formfeed" || s == "ffd" then 12
    else if s == "vertical" || s == "vrt" then 11
    else v.headD 0
  if control && isMeta_ then return .ok ([0x1b, (toUpperU ch) &&& 0x1f], p)
  let ch := if control then (toUpperU ch) &&& 0x1f else if isMeta_ then ch ||| 0x80 else ch
  return .ok ([ch], p)

/-- readNext: (keyseq/name, value, token) or a parse error; G for Go panics -/
def readNext (r : RS) (pos e : Nat) : G (Except PErr (List Nat × List Nat × Tok)) := do
  let pos ← findNonSpace r pos e
  let c0 ← idx r pos
  if c0 == 0x73 && grabA r (pos+1) e == 0x65 && grabA r (pos+2) e == 0x74 && isSpaceU (grabA r (pos+3) e) then
    return .ok (← readSymbols r (pos + 4) e .set true)
  if c0 == 0x24 then
    return .ok (← readSymbols r pos e .construct false)
  let mut p := pos
  let mut keySeq : List Nat := []
  if c0 == 0x22 || c0 == 0x27 then
    let start := pos
    let (ep, ok) ← findStringEnd r pos e
    if !ok then return .error .bindQuote
    p := ep
    keySeq ← unescRange r (start + 1) (p - 1)
  else
    match ← decodeKey r pos e with
    | .error er => return .error er
    | .ok (k, np) => keySeq := k; p := np
  -- seek ':'
  for _ in [0:e + 1] do
    if p < e then
      let c ← idx r p
      if c != 0x3a then p := p + 1 else break
    else break
  if p == e then return .error .missingColon
  let c ← idx r p
  if c != 0x3a then return .error .missingColon
  p ← findNonSpace r (p + 1) e
  if p == e then return .ok (keySeq, [], .none)
  let c ← idx r p
  if c == 0x23 then return .ok (keySeq, [], .none)
  if c == 0x22 || c == 0x27 then
    let start := p
    let (ep, ok) ← findStringEnd r p e
    if !ok then return .error .macroQuote
    return .ok (keySeq, ← unescRange r (start + 1) (ep - 1), .bindMacro)
  let v ← sliceS r p (findEnd r p e)
  return .ok (keySeq, v, .bind)

end RLV.Inputrc
