import RLV.Model.Esc
import RLV.Model.Utf8
import RLV.Model.Core
/-! The line scanner of the inputrc parser (inputrc/parse.go): `findNonSpace`, `findEnd`,
`findStringEnd`, `grab`, `readSymbols`, `decodeKey`, `readNext`, in the panic monad `G`
(a Go index or slice out of range is the value `.error (.oob _)`).
Loops are structural recursions on a fuel argument; every caller passes fuel `e + 1`, which the
totality theorems show is never exhausted. -/
namespace RLV.Inputrc
open RLV.Core (G Panic)

abbrev RS := Array Nat

def isSpaceU (c : Nat) : Bool := Uni.isSpace c
def isControlU (c : Nat) : Bool := Uni.isControl c
def toLowerU (c : Nat) : Nat := Uni.toLower c
def toUpperU (c : Nat) : Nat := Esc.toUpper c

/-- `grab(r, i, end)` -/
def grabA (r : RS) (i e : Nat) : Nat := if i < e then r.getD i 0 else 0

/-- Go index `r[i]` -/
def idx (r : RS) (i : Nat) : G Nat :=
  if h : i < r.size then pure r[i] else throw (.oob "rune index")

/-- `for ; i < end && unicode.IsSpace(r[i]); i++ {}` -/
def findNonSpace (r : RS) (e : Nat) : Nat → Nat → G Nat
  | 0, i => pure i
  | f+1, i =>
    if i < e then do
      let c ← idx r i
      if isSpaceU c then findNonSpace r e f (i + 1) else pure i
    else pure i

def endTok (c : Nat) : Bool := c == 0x23 || isSpaceU c || isControlU c

/-- `for ; i < end; i++ { if c := r[i]; c == '#' || IsSpace(c) || IsControl(c) { break } }` -/
def findEnd (r : RS) (e : Nat) : Nat → Nat → G Nat
  | 0, i => pure i
  | f+1, i =>
    if i < e then do
      let c ← idx r i
      if endTok c then pure i else findEnd r e f (i + 1)
    else pure i

/-- the loop of `findStringEnd` after `quote := seq[pos]; pos++` -/
def stringEndLoop (r : RS) (e quote : Nat) : Nat → Nat → G (Nat × Bool)
  | 0, p => pure (p, false)
  | f+1, p =>
    if p < e then do
      let c ← idx r p
      if c == 0x5c then stringEndLoop r e quote f (p + 2)
      else if c == quote then pure (p + 1, true)
      else stringEndLoop r e quote f (p + 1)
    else pure (p, false)

def findStringEnd (r : RS) (pos e : Nat) : G (Nat × Bool) := do
  let quote ← idx r pos
  stringEndLoop r e quote (e + 1) (pos + 1)

inductive Tok | none | bind | bindMacro | set | construct
deriving Repr, DecidableEq

inductive PErr | bindQuote | missingColon | macroQuote | unknownModifier
deriving Repr, DecidableEq

def Tok.name : Tok → String
  | .none => "none" | .bind => "bind" | .bindMacro => "bindMacro" | .set => "set" | .construct => "construct"
def PErr.name : PErr → String
  | .bindQuote => "bindQuote" | .missingColon => "missingColon" | .macroQuote => "macroQuote"
  | .unknownModifier => "unknownModifier"

/-- Go `seq[a:b]` on a slice whose capacity is its length -/
def sliceS (r : RS) (a b : Nat) : G (List Nat) :=
  if a ≤ b ∧ b ≤ r.size then pure ((r.toList.drop a).take (b - a)) else throw (.oob "slice")

/-- `unescapeRunes(r, i, end)`: `if len(r) == 1 { return string(r) }`, else the loop over `[i, end)`;
`grab` is bounded by `end`, so the look-ahead never sees runes at or after `end`: running on the
slice is exact. With `end < i` the loop does not run. -/
def unescRange (r : RS) (i e : Nat) : G (List Nat) := do
  if r.size = 1 then return r.toList
  if e < i then return []
  let body ← sliceS r i e
  return Esc.unescF body.length body

/-- `readSymbols` -/
def readSymbols (r : RS) (pos e : Nat) (tok : Tok) (allowStrings : Bool) : G (List Nat × List Nat × Tok) := do
  let start ← findNonSpace r e (e + 1) pos
  let p ← findEnd r e (e + 1) start
  let val ← sliceS r start p
  let start ← findNonSpace r e (e + 1) p
  let c := grabA r start e
  let (ok, p2) ← (if start < e ∧ (c = 0x22 ∨ c = 0x27) then do
      let (ep, o) ← findStringEnd r start e
      pure (o, if o then ep else p)
    else pure (false, p) : G (Bool × Nat))
  let p3 ← (if !allowStrings || !ok then findEnd r e (e + 1) start else pure p2 : G Nat)
  let v ← sliceS r start p3
  return (val, v, tok)

def lowerS (l : List Nat) : List Nat := l.map toLowerU

def str (s : String) : List Nat := s.toList.map Char.toNat

/-- the modifier-stripping loop of `decodeKey` (`strings.Index(val, "-")`; modifiers are ASCII, so
working on runes instead of bytes is exact) -/
def stripMods : Nat → List Nat → Bool → Bool → Except PErr (List Nat × Bool × Bool)
  | 0, v, c, m => .ok (v, c, m)
  | f+1, v, c, m =>
    match v.idxOf? 0x2d with
    | none => .ok (v, c, m)
    | some i =>
      let md := v.take i
      if md = str "control" ∨ md = str "ctrl" ∨ md = str "c" then stripMods f (v.drop (i + 1)) true m
      else if md = str "meta" ∨ md = str "m" then stripMods f (v.drop (i + 1)) c true
      else .error .unknownModifier

def keyChar (v : List Nat) : Nat :=
  if v = str "delete" ∨ v = str "del" ∨ v = str "rubout" then 0x7f
  else if v = str "escape" ∨ v = str "esc" then 0x1b
  else if v = str "newline" ∨ v = str "linefeed" ∨ v = str "lfd" then 10
  else if v = str "return" ∨ v = str "ret" then 13
  else if v = str "tab" then 9
  else if v = str "space" ∨ v = str "spc" then 32
  else if v = str "formfeed" ∨ v = str "ffd" then 12
  else if v = str "vertical" ∨ v = str "vrt" then 11
  else v.headD 0

def endKey (c : Nat) : Bool := c == 0x3a || endTok c

/-- the name-scanning loop of `decodeKey` -/
def keyEnd (r : RS) (e : Nat) : Nat → Nat → G Nat
  | 0, i => pure i
  | f+1, i =>
    if i < e then do
      let c ← idx r i
      if endKey c then pure i else keyEnd r e f (i + 1)
    else pure i

def decodeKey (r : RS) (pos e : Nat) : G (Except PErr (List Nat × Nat)) := do
  let p ← keyEnd r e (e + 1) pos
  let raw ← sliceS r pos p
  match stripMods (raw.length + 1) (lowerS raw) false false with
  | .error er => return .error er
  | .ok (v, control, isMeta) =>
    if v.isEmpty then return .ok ([], p)
    let ch := keyChar v
    if control && isMeta then return .ok ([0x1b, (toUpperU ch) &&& 0x1f], p)
    let ch := if control then (toUpperU ch) &&& 0x1f else if isMeta then ch ||| 0x80 else ch
    return .ok ([ch], p)

/-- `for ; pos < end && seq[pos] != ':'; pos++ {}` -/
def seekColon (r : RS) (e : Nat) : Nat → Nat → G Nat
  | 0, i => pure i
  | f+1, i =>
    if i < e then do
      let c ← idx r i
      if c != 0x3a then seekColon r e f (i + 1) else pure i
    else pure i

/-- the part of `readNext` after the key sequence has been read -/
def readAction (r : RS) (e : Nat) (keySeq : List Nat) (p : Nat) : G (Except PErr (List Nat × List Nat × Tok)) := do
  let p ← seekColon r e (e + 1) p
  if p == e then return .error .missingColon
  let c ← idx r p
  if c != 0x3a then return .error .missingColon
  let p ← findNonSpace r e (e + 1) (p + 1)
  if p == e then return .ok (keySeq, [], .none)
  let c ← idx r p
  if c == 0x23 then return .ok (keySeq, [], .none)
  if c == 0x22 || c == 0x27 then
    let (ep, ok) ← findStringEnd r p e
    if !ok then return .error .macroQuote
    return .ok (keySeq, ← unescRange r (p + 1) (ep - 1), .bindMacro)
  let q ← findEnd r e (e + 1) p
  let v ← sliceS r p q
  return .ok (keySeq, v, .bind)

/-- `readNext`: (key sequence or name, value, token) or a parse error; `G` for Go panics -/
def readNext (r : RS) (pos e : Nat) : G (Except PErr (List Nat × List Nat × Tok)) := do
  let pos ← findNonSpace r e (e + 1) pos
  let c0 ← idx r pos
  if c0 == 0x73 && grabA r (pos+1) e == 0x65 && grabA r (pos+2) e == 0x74 && isSpaceU (grabA r (pos+3) e) then
    return .ok (← readSymbols r (pos + 4) e .set true)
  if c0 == 0x24 then
    return .ok (← readSymbols r pos e .construct false)
  if c0 == 0x22 || c0 == 0x27 then
    let (ep, ok) ← findStringEnd r pos e
    if !ok then return .error .bindQuote
    let keySeq ← unescRange r (pos + 1) (ep - 1)
    readAction r e keySeq ep
  else
    match ← decodeKey r pos e with
    | .error er => return .error er
    | .ok (k, np) => readAction r e k np

/-- what `Parser.Parse` does with one line before calling `next`: skip blank and comment lines -/
def scanLine (r : RS) : G (Option (Except PErr (List Nat × List Nat × Tok))) := do
  let p ← findNonSpace r r.size (r.size + 1) 0
  if p == r.size then return none
  let c ← idx r p
  if c == 0 || c == 13 || c == 10 || c == 0x23 then return none
  return some (← readNext r p r.size)

end RLV.Inputrc
