import RLV.Model.Keys
import RLV.Model.Esc
/-! The main loop of `Shell.Readline` (readline.go) as far as the key stack is concerned: flush,
`WaitAvailableKeys`, `MatchLocal`, `run`, `MatchMain`, `run` — with bind macros fed back to the key
stack (`run`: `rl.Keys.Feed(false, []rune(inputrc.Unescape(bind.Action))...)`) and the commands
themselves abstract (`Cmds.run`: whatever the command, the pending operators and the post-run hooks
do to the shell). The dispatchers are those of Model/Keys.lean, compared with the real ones on every
run; the whole loop is compared with a real `Readline` session (`rlv-diff -model loop`). -/
namespace RLV.MLoop
open RLV

/-- the part of the shell the loop itself looks at -/
structure LS where
  eng : Eng
  /-- binds of the active local keymap (`[]` = none active, or an empty one) -/
  ltbl : List (Seq × Bind) := []
  /-- the local keymap is isearch -/
  isearch : Bool := false
  /-- `History.LineAccepted()`: the call returns -/
  done : Bool := false
  /-- observations (the commands run, with the keys that called them): written by `Cmds.run` only -/
  log : List (String × List Nat) := []

/-- what running a command does to the shell: `run b cmd s` is the state after `execute(command)` and
the rest of `Shell.run` for the bind `b` (`cmd` = a command was resolved) -/
structure Cmds where
  run : Bind → Bool → LS → LS

/-- the keys a bind macro feeds -/
def macroKeys (b : Bind) : List Nat := Esc.unescape (b.action.toList.map Char.toNat)

/-- `Shell.run(main, bind, command)` -/
def runBind (C : Cmds) (main : Bool) (b : Bind) (cmd : Bool) (s : LS) : LS :=
  if main = false ∧ b.action = "" then s else
  let s1 : LS := if b.isMacro then { s with eng := { s.eng with keys := s.eng.keys.feed (macroKeys b) } } else s
  C.run b cmd s1

/-- one iteration of the `for` loop of `Readline`, once `WaitAvailableKeys` has returned -/
def iter (C : Cmds) (s : LS) : LS :=
  let e0 : Eng := { s.eng with keys := s.eng.keys.flushUsed, lisearch := s.isearch }
  let r1 := matchLocal e0 s.ltbl s.isearch
  let s1 : LS := { s with eng := r1.1 }
  if r1.2.2.2 then s1 else          -- `if prefixed { continue }`
  let s2 := runBind C false r1.2.1 r1.2.2.1 s1
  if s2.done ∨ r1.2.2.1 then s2 else   -- `if accepted { return } else if command != nil { continue }`
  let r3 := matchMain { s2.eng with lisearch := s2.isearch }
  let s3 : LS := { s2 with eng := r3.1 }
  if r3.2.2.2 then s3 else          -- `if prefixed { continue }`
  runBind C true r3.2.1 r3.2.2.1 s3

/-- `WaitAvailableKeys` goes on to read the terminal (it returns at once otherwise) -/
def needRead (k : Keys) : Bool := !((!k.buf.isEmpty && !k.mustWait) || !k.mkeys.isEmpty)

/-- the call has returned, or is blocked in a read of the terminal -/
def Settled (s : LS) : Prop := s.done = true ∨ needRead s.eng.keys = true

instance (s : LS) : Decidable (Settled s) := by unfold Settled; infer_instance

/-- `n` iterations without reading the terminal, stopping as soon as the loop is settled -/
def iterN (C : Cmds) : Nat → LS → LS
  | 0, s => s
  | n+1, s => if s.done = true ∨ needRead s.eng.keys = true then s else iterN C n (iter C s)

/-- `WaitAvailableKeys` receiving one read `c` from the terminal (`convert-meta` off) -/
def read (s : LS) (c : List Nat) : LS :=
  { s with eng := { s.eng with keys := { s.eng.keys.beforeRead with buf := s.eng.keys.buf ++ c } } }

/-- the whole call on the reads `chunks` (a read of zero bytes is read again), with `fuel` iterations:
the final state and whether the fuel was enough -/
def session (C : Cmds) : Nat → List (List Nat) → LS → LS × Bool
  | 0, _, s => (s, false)
  | f+1, chunks, s =>
    if s.done then (s, true)
    else if needRead s.eng.keys then
      match chunks with
      | [] => (s, true)
      | c :: cs => if c.isEmpty then session C f cs s else session C f cs (iter C (read s c))
    else session C f chunks (iter C s)

end RLV.MLoop
