namespace RLV.Inputrc

abbrev Rune := Nat

def bs : Nat := 0x5c

/-- `grab(r, i, end)` with `r` already dropped to position 0: rune at offset `i`, 0 past the end. -/
def grab (r : List Rune) (i : Nat) : Rune := r.getD i 0

def octDigit (c : Rune) : Bool := 0x30 ≤ c && c ≤ 0x37
def hexDigit (c : Rune) : Bool :=
  (0x30 ≤ c && c ≤ 0x39) || (0x41 ≤ c && c ≤ 0x46) || (0x61 ≤ c && c ≤ 0x66)
def hexVal (c : Rune) : Nat :=
  if 0x61 ≤ c && c ≤ 0x66 then c - 0x61 + 10
  else if 0x41 ≤ c && c ≤ 0x46 then c - 0x41 + 10
  else c - 0x30

variable (toUpper : Rune → Rune)

def encontrol (c : Rune) : Rune := (toUpper c) &&& 0x1f
def enmeta (c : Rune) : Rune := c ||| 0x80

/-- One escape starting at a backslash at offset 0 of `r` (so `r = '\\' :: _`).
Returns the runes emitted and the number of *extra* runes consumed after the backslash
(the Go loop's `i += k`, the loop's own `i++` consumes the backslash). -/
def escStep (r : List Rune) : List Rune × Nat :=
  let c1 := grab r 1; let c2 := grab r 2; let c3 := grab r 3
  let c4 := grab r 4; let c5 := grab r 5
  if c1 = 0x61 then ([7], 1)
  else if c1 = 0x62 then ([8], 1)
  else if c1 = 0x64 then ([0x7f], 1)
  else if c1 = 0x65 then ([0x1b], 1)
  else if c1 = 0x66 then ([12], 1)
  else if c1 = 0x6e then ([10], 1)
  else if c1 = 0x72 then ([13], 1)
  else if c1 = 0x74 then ([9], 1)
  else if c1 = 0x76 then ([11], 1)
  else if c1 = bs ∨ c1 = 0x22 ∨ c1 = 0x27 then ([c1], 1)
  else if c1 = 0x78 ∧ hexDigit c2 ∧ hexDigit c3 then ([hexVal c2 * 16 ||| hexVal c3], 2)
  else if c1 = 0x78 ∧ hexDigit c2 then ([hexVal c2], 1)
  else if octDigit c1 ∧ octDigit c2 ∧ octDigit c3 then
    ([((c1 - 0x30) <<< 6) ||| ((c2 - 0x30) <<< 3) ||| (c3 - 0x30)], 3)
  else if octDigit c1 ∧ octDigit c2 then ([((c1 - 0x30) <<< 3) ||| (c2 - 0x30)], 2)
  else if octDigit c1 then ([c1 - 0x30], 1)
  else if ((c1 = 0x43 ∧ c4 = 0x4d) ∨ (c1 = 0x4d ∧ c4 = 0x43)) ∧ c2 = 0x2d ∧ c3 = bs ∧ c5 = 0x2d then
    let c6 := grab r 6
    (if c6 ≠ 0 then [0x1b, encontrol toUpper c6] else [], 6)
  else if c1 = 0x43 ∧ c2 = 0x2d then
    (if c3 = 0x3f then [0x7f] else [encontrol toUpper c3], 3)
  else if c1 = 0x4d ∧ c2 = 0x2d then
    if c3 = 0 then ([0x1b], 2) else ([enmeta c3], 3)
  else ([c1], 1)

/-- `unescapeRunes` with fuel (fuel ≥ length suffices). The `len(r) == 1` shortcut is in `unescape`. -/
def unescF : Nat → List Rune → List Rune
  | 0, _ => []
  | _, [] => []
  | n+1, c :: t =>
    if c = bs then
      let s := escStep toUpper (c :: t)
      s.1 ++ unescF n (t.drop s.2)
    else c :: unescF n t

def unescape (r : List Rune) : List Rune :=
  if r.length = 1 then r else unescF toUpper r.length r

/-- Framing lemma for the `\C-X` image, X an upper-range control letter other than backslash. -/
theorem unescF_ctrl (n : Nat) (x : Nat) (t : List Nat)
    (hx : 0x40 ≤ x ∧ x ≤ 0x5f) (hne : x ≠ 0x5c) (hup : toUpper x = x) :
    unescF toUpper (n+1) (0x5c :: 0x43 :: 0x2d :: x :: t)
      = (x &&& 0x1f) :: unescF toUpper n t := by
  have hx3f : x ≠ 0x3f := by omega
  simp [unescF, escStep, grab, bs, octDigit, encontrol, hup, hx3f, hne]

/-- Framing lemma for `\xHH`. -/
theorem unescF_hex (n : Nat) (h1 h2 : Nat) (t : List Nat)
    (hh1 : hexDigit h1 = true) (hh2 : hexDigit h2 = true) :
    unescF toUpper (n+1) (0x5c :: 0x78 :: h1 :: h2 :: t)
      = (hexVal h1 * 16 ||| hexVal h2) :: unescF toUpper n (h2 :: t) := by  -- pinned: H2 is re-read!
  simp [unescF, escStep, grab, bs, hh1, hh2]

/-- Framing lemma for a plain rune. -/
theorem unescF_plain (n : Nat) (c : Nat) (t : List Nat) (hc : c ≠ 0x5c) :
    unescF toUpper (n+1) (c :: t) = c :: unescF toUpper n t := by
  simp [unescF, bs, hc]

end RLV.Inputrc
