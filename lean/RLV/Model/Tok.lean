import RLV.Model.Utf8
import RLV.Model.Core
namespace RLV.Tok
open RLV.Core

/-- prototype `unicode.IsPunct` (ASCII + a few Latin-1); the real model uses generated tables -/
def isPunct (c : Nat) : Bool :=
  c == 0x21 || c == 0x22 || c == 0x23 || c == 0x25 || c == 0x26 || c == 0x27 || c == 0x28 || c == 0x29 ||
  c == 0x2a || c == 0x2c || c == 0x2d || c == 0x2e || c == 0x2f || c == 0x3a || c == 0x3b || c == 0x3f ||
  c == 0x40 || c == 0x5b || c == 0x5c || c == 0x5d || c == 0x5f || c == 0x7b || c == 0x7d ||
  c == 0xa1 || c == 0xa7 || c == 0xab || c == 0xb6 || c == 0xb7 || c == 0xbb || c == 0xbf
def isSpaceU (c : Nat) : Bool := (9 ≤ c && c ≤ 13) || c == 32 || c == 0x85 || c == 0xA0

def blen (tok : List Nat) : Int := (utf8 tok).length

/-- append a rune to the last token -/
def addLast (split : List (List Nat)) (c : Nat) : List (List Nat) :=
  match split.reverse with
  | [] => [[c]]
  | t :: r => (r.reverse) ++ [t ++ [c]]

structure TS where
  split : List (List Nat) := [[]]
  index : Int := 0
  pos : Int := 0
  punc : Bool := false
  newline : Bool := false

def lastIdx (s : TS) : Int := (s.split.length : Int) - 1
def lastLen (s : TS) : Int := blen (s.split.getLastD [])

/-- Line.Tokenize body for rune `i` -/
def tokStep (line : List Nat) (cpos : Int) (s : TS) (i : Nat) : TS :=
  let c := line.getD i 0
  let prev := line.getD (i - 1) 0
  let s :=
    if isPunct c then
      let sp := if i > 0 ∧ prev ≠ c then s.split ++ [[]] else s.split
      { s with split := addLast sp c, punc := true }
    else if c == 32 || c == 9 then { s with split := addLast s.split c, punc := true }
    else if c == 10 then
      let sp := if i > 0 ∧ prev = c then s.split ++ [[]] else s.split
      { s with split := addLast sp c, punc := true }
    else
      let sp := if s.punc then s.split ++ [[]] else s.split
      { s with split := addLast sp c, punc := false }
  if (i : Int) = cpos then { s with index := lastIdx s, pos := lastLen s - 1 } else s

def clampPos (line : List Nat) (p : Int) : Int := if p < 0 then 0 else if p > len line then len line else p

def tokenize (line : List Nat) (cpos : Int) : List (List Nat) × Int × Int :=
  if line.isEmpty then ([], 0, 0) else
  let cpos := clampPos line cpos
  let s := (List.range line.length).foldl (tokStep line cpos) {}
  let s := if cpos = len line then { s with index := lastIdx s, pos := lastLen s } else s
  (s.split, s.index, s.pos)

/-- Line.TokenizeSpace body -/
def tokSpaceStep (line : List Nat) (cpos : Int) (s : TS) (i : Nat) : TS :=
  let c := line.getD i 0
  let prev := line.getD (i - 1) 0
  let s :=
    if c == 32 || c == 9 then { s with split := addLast s.split c, newline := false }
    else if c == 10 then
      let sp := if i > 0 ∧ prev = c then s.split ++ [[]] else s.split
      { s with split := addLast sp c, newline := true }
    else
      let sp := if (i > 0 ∧ (prev == 32 || prev == 9)) ∨ s.newline then s.split ++ [[]] else s.split
      { s with split := addLast sp c, newline := false }
  if (i : Int) = cpos then { s with index := lastIdx s, pos := lastLen s - 1 } else s

def tokenizeSpace (line : List Nat) (cpos : Int) : List (List Nat) × Int × Int :=
  if line.isEmpty then ([], 0, 0) else
  let cpos := clampPos line cpos
  let s := (List.range line.length).foldl (tokSpaceStep line cpos) {}
  let s := if cpos = len line then { s with index := lastIdx s, pos := lastLen s } else s
  (s.split, s.index, s.pos)

def tokAt (split : List (List Nat)) (i : Int) : G (List Nat) :=
  if i < 0 ∨ i ≥ split.length then throw (.oob "split[index]") else pure (split.getD i.toNat [])

def trimRightSpace (t : List Nat) : List Nat := (t.reverse.dropWhile isSpaceU).reverse

/-- Line.Forward -/
def forward (line : List Nat) (tk : List (List Nat) × Int × Int) : G Int := do
  let (split, index, pos) := tk
  if split.isEmpty then return 0
  if index + 1 = split.length then return len line - pos
  return blen (← tokAt split index) - pos

/-- Line.ForwardEnd -/
def forwardEnd (tk : List (List Nat) × Int × Int) : G Int := do
  let (split, index, pos) := tk
  if split.isEmpty then return 0
  let word := trimRightSpace (← tokAt split index)
  if index = (split.length : Int) - 1 ∧ pos ≥ blen word - 1 then return 0
  if pos ≥ blen word - 1 then
    let w2 := trimRightSpace (← tokAt split (index + 1))
    return blen (← tokAt split index) - pos + (blen w2 - 1)
  return blen word - pos - 1

/-- Line.Backward -/
def backward (tk : List (List Nat) × Int × Int) : G Int := do
  let (split, index, pos) := tk
  if split.isEmpty then return 0
  if index = 0 ∧ pos = 0 then return 0
  if pos = 0 then return -(blen (← tokAt split (index - 1)))
  return -pos

end RLV.Tok
