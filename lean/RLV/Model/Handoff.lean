/-! The hand-off of cursor position reports between the key reading routine of the main loop and a
routine that queries the terminal (`Keys.GetCursorPos`, called by every redisplay: from the main loop
itself, from the resize goroutine, from `Shell.Printf`) — internal/core/keys.go, keys_unix.go.

The main loop is `between` two reads (running a command), parked `inRead` (`WaitAvailableKeys`, the flag
`waiting`), or `forwarding`: it has read a report and is blocked sending it on the unbuffered channel
`Keys.cursor`. The querying routine is `idle`, blocked receiving on that channel (`recvChan`: it found
`waiting` set when it asked), blocked in its own read of the terminal (`readStdin`: it found it unset),
or has `got` its report. `report` = the answer of the terminal is in its input queue; `asked` = a query
is pending (`Keys.asked`). The user may type at any moment: a read of keys is always possible. -/
namespace RLV.Handoff

inductive Main | between | inRead | forwarding
deriving DecidableEq, Repr

inductive Req | idle | recvChan | readStdin | got
deriving DecidableEq, Repr

structure St where
  main : Main
  req : Req
  report : Bool
  asked : Bool
deriving DecidableEq, Repr

/-- the steps of the two routines and of the terminal -/
def next (s : St) : List St :=
  -- the query: the flag, the DSR, and the way the answer will be awaited
  (if s.req = .idle ∧ s.asked = false then
    [{ s with asked := true, report := true, req := if s.main = .inRead then .recvChan else .readStdin }] else []) ++
  -- the main loop enters / leaves its read on keys
  (if s.main = .between then [{ s with main := .inRead }] else []) ++
  (if s.main = .inRead then [{ s with main := .between }] else []) ++
  -- the main loop reads the report: handed over if a query is pending, keyboard input otherwise
  (if s.main = .inRead ∧ s.report = true then
    [if s.asked then { s with main := .forwarding, report := false } else { s with main := .between, report := false }] else []) ++
  -- the hand-over on the channel
  (if s.main = .forwarding ∧ s.req = .recvChan then [{ s with main := .inRead, req := .got }] else []) ++
  -- the querying routine reads the report itself
  (if s.req = .readStdin ∧ s.report = true then [{ s with req := .got, report := false }] else []) ++
  -- it is done
  (if s.req = .got then [{ s with req := .idle, asked := false }] else [])

/-- the querying routine can never get its report any more: the main loop holds it and waits for a
receiver that is blocked in a read -/
def Stuck (s : St) : Prop := s.main = .forwarding ∧ s.req = .readStdin

instance (s : St) : Decidable (Stuck s) := by unfold Stuck; infer_instance

/-- states reachable in at most `n` steps -/
def reach : Nat → List St → List St
  | 0, ss => ss
  | n+1, ss => reach n (ss ++ (ss.flatMap next)).eraseDups

end RLV.Handoff
