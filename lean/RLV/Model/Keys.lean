import RLV.Model.Utf8
import RLV.Model.Bind
namespace RLV

structure Keys where
  buf : List Nat := []
  matched : List Nat := []
  mkeys : List Nat := []
  mustWait : Bool := false
  /-- keys fed by a macro have been dispatched since the terminal was last read -/
  fromMacro : Bool := false
  /-- number of times keys have been fed since then -/
  nested : Nat := 0
deriving Repr

namespace Keys

def peek (k : Keys) : Option Nat :=
  match k.buf with
  | b :: _ => some b
  | [] => match k.mkeys with
    | r :: _ => some (r % 256)
    | [] => none

/-- `core.PopKey` (also the queue discipline of `Keys.Pop`, `Keys.ReadKey`, `core.PopForce`): typed keys
first; a key taken from the macro queue raises `fromMacro` -/
def pop (k : Keys) : Keys :=
  match k.buf with
  | _ :: t => { k with buf := t }
  | [] => match k.mkeys with
    | _ :: t => { k with mkeys := t, fromMacro := true }
    | [] => k

def popForce (k : Keys) : Keys := { k.pop with mustWait := false }

/-- `maxNestedFeeds` -/
def maxNested : Nat := 32

/-- `Keys.Feed(false, keys...)`: append to the macro queue; once macro keys have been dispatched the
feeds are counted, and past `maxNested` the macro queue is dropped instead -/
def feed (k : Keys) (ks : List Nat) : Keys :=
  if ks.isEmpty then k else
  let n := if k.fromMacro then k.nested + 1 else k.nested
  if n > maxNested then { k with nested := n, mkeys := [] }
  else { k with nested := n, mkeys := k.mkeys ++ ks }

/-- what `WaitAvailableKeys` resets when it goes on to read the terminal -/
def beforeRead (k : Keys) : Keys := { k with fromMacro := false, nested := 0 }

def matchedKeys (k : Keys) (m : List Nat) (args : List Nat) : Keys :=
  { k with matched := if m.isEmpty then k.matched else runesOfBytes m,
           buf := if args.isEmpty then k.buf else args ++ k.buf,
           mustWait := false }

def matchedPrefix (k : Keys) (p : List Nat) : Keys :=
  if p.isEmpty then k else
  { k with mustWait := k.buf.isEmpty, buf := p ++ k.buf, matched := runesOfBytes p }

def flushUsed (k : Keys) : Keys := { k with matched := [] }

end Keys

def isMetaRune (c : Nat) : Bool := c > 0x7f && c ≤ 0xff
def convertMeta (rs : List Nat) : List Nat :=
  rs.flatMap fun c => if isMetaRune c then [0x1b, c &&& 0x7f] else [c]

/-- lexicographic order on byte lists -/
def lexLe : List Nat → List Nat → Bool
  | [], _ => true
  | _ :: _, [] => false
  | a :: as, b :: bs => if a < b then true else if a > b then false else lexLe as bs

/-- sort order of `matchBind`: by length of the raw Go string, then alphabetical -/
def seqLe (a b : List Nat) : Bool :=
  if a.length = b.length then lexLe a b else a.length < b.length

/-- raw table: (raw rune sequence, bind).  Normalised: (bytes after ConvertMeta, bind) in sort order. -/
def norm (tbl : List (List Nat × Bind)) : List (Seq × Bind) :=
  let withKey := tbl.map fun e => (utf8 e.1, e)
  let sorted := withKey.mergeSort fun a b => seqLe a.1 b.1
  sorted.map fun e => (utf8 (convertMeta e.2.1), e.2.2)

structure Eng where
  keys : Keys := {}
  prefixed : Bind := Bind.none
  active : Bind := Bind.none
  mainTbl : List (Seq × Bind) := []
  isEmacs : Bool := true
  /-- main keymap is vi-insert -/
  viInsert : Bool := false
  /-- the `convert-meta` variable -/
  convertMetaOn : Bool := false
  registered : List String := []
  /-- a non-incremental search minibuffer is being edited (`NonIncrementalSearchStart`) -/
  nonInc : Bool := false
  /-- the local keymap is isearch (`m.Local() == Isearch`) -/
  lisearch : Bool := false
deriving Repr

/-- `Engine.insertsText` -/
def Eng.insertsText (e : Eng) : Bool := (e.isEmacs || e.viInsert) && !e.convertMetaOn

/-- `dispatchKeys` on the key stack. Fuel = number of keys available. -/
def dispatchKeys (tbl : List (Seq × Bind)) : Nat → Eng → Seq → Seq → Bool → Eng × Bool × Seq × Seq
  | 0, e, read, matched, pfx => (e, pfx, read, matched)
  | n+1, e, read, matched, pfx =>
    match e.keys.peek with
    | none => (e, pfx, read, matched)
    | some k =>
      let read' := read ++ [k]
      let r := matchBind read' tbl
      if r.1.action = "" ∧ r.2 = false then
        ({ e with active := e.prefixed, prefixed := Bind.none, keys := e.keys.pop }, false, read', matched)
      else if r.2 then
        dispatchKeys tbl n { e with keys := e.keys.pop,
                                    prefixed := if r.1.action ≠ "" then r.1 else e.prefixed }
          read' (matched ++ [k]) true
      else
        ({ e with active := r.1, prefixed := Bind.none, keys := e.keys.pop }, false, read', matched ++ [k])

def isEscapeKey (e : Eng) : Bool := e.keys.matched == [0x1b]

def hasCmd (e : Eng) (b : Bind) : Bool := !b.isMacro && e.registered.contains b.action

/-- `utf8.FullRune` -/
def fullRune (p : List Nat) : Bool :=
  match p with
  | [] => false
  | b0 :: t =>
    let need := if b0 < 0x80 then 0 else if b0 < 0xC2 then 1 else if b0 < 0xE0 then 2
                else if b0 < 0xF0 then 3 else if b0 < 0xF5 then 4 else 1
    if p.length ≥ need then true else
    let lo := if b0 = 0xE0 then 0xA0 else if b0 = 0xF0 then 0x90 else 0x80
    let hi := if b0 = 0xED then 0x9F else if b0 = 0xF4 then 0x8F else 0xBF
    match t with
    | [] => false
    | b1 :: t2 =>
      if b1 < lo ∨ hi < b1 then true else
      match t2 with
      | [] => false
      | b2 :: _ => !cont b2

/-- the loop of `matchCharacter`: collect the bytes of one multibyte character.
Returns the engine, the bytes read and whether the character is complete. -/
def matchCharLoop : Nat → Eng → Seq → Eng × Seq × Bool
  | 0, e, read => (e, read, true)
  | f+1, e, read =>
    if fullRune read then (e, read, true) else
    match e.keys.peek with
    | none => (e, read, false)
    | some k => matchCharLoop f { e with keys := e.keys.pop } (read ++ [k])

def selfInsertBind : Bind := ⟨"self-insert", false⟩

/-- the multibyte fallback of `MatchMain` + `matchCharacter`: engine, bind, prefix, read -/
def matchCharacter (e : Eng) (bind : Bind) (pfx : Bool) (read : Seq) : Eng × Bind × Bool × Seq :=
  if bind.action = "" ∧ pfx = false ∧ read.headD 0 ≥ 0x80 ∧ fullRune read.dropLast = false ∧ e.insertsText = true then
    let r := matchCharLoop 4 e read
    if r.2.2 = false then (r.1, Bind.none, true, r.2.1)
    else if (decodeRune r.2.1).1 = 0xFFFD then (r.1, Bind.none, false, r.2.1)
    else ({ r.1 with active := selfInsertBind }, selfInsertBind, false, r.2.1)
  else (e, bind, pfx, read)

/-- the non-incremental-search override of `MatchMain`: keys that run no command, or only match a
prefix, are inserted in the minibuffer -/
def nonIncOverride (e : Eng) (bind : Bind) (pfx : Bool) : Eng × Bind × Bool :=
  if e.nonInc && (!hasCmd e bind || pfx) then ({ e with active := selfInsertBind }, selfInsertBind, false)
  else (e, bind, pfx)

/-- ... except for the first bytes of a character, which wait for the rest of it in the search
minibuffer too (`partial` in `MatchMain`) -/
def nonIncOverrideR (e : Eng) (bind : Bind) (pfx : Bool) (read : Seq) : Eng × Bind × Bool :=
  if pfx && decide (read.headD 0 ≥ 0x80) && !fullRune read then (e, bind, pfx) else nonIncOverride e bind pfx

theorem nonIncOverrideR_off (e : Eng) (bind : Bind) (pfx : Bool) (read : Seq) (h : e.nonInc = false) :
    nonIncOverrideR e bind pfx read = (e, bind, pfx) := by
  unfold nonIncOverrideR nonIncOverride
  simp [h]

/-- `isearchCommands` (internal/keymap/completion.go): the commands of the main keymap that stay bound
while the incremental search is active -/
def isearchCommands : List String := ["abort", "backward-delete-char", "backward-kill-word", "backward-kill-line",
  "unix-line-discard", "unix-word-rubout", "vi-unix-word-rubout", "clear-screen", "clear-display", "magic-space",
  "vi-movement-mode", "yank", "self-insert", "accept-and-infer-next-history", "accept-line", "accept-and-hold",
  "operate-and-get-next", "history-incremental-search-forward", "history-incremental-search-backward",
  "forward-search-history", "reverse-search-history", "history-search-forward", "history-search-backward",
  "history-substring-search-forward", "history-substring-search-backward", "incremental-forward-search-history",
  "incremental-reverse-search-history"]

/-- `nonIsearchCommands`: the same for a non-incremental search minibuffer -/
def nonIsearchCommands : List String := ["abort", "accept-line", "backward-delete-char", "backward-kill-word",
  "backward-kill-line", "unix-line-discard", "unix-word-rubout", "vi-unix-word-rubout", "self-insert"]

/-- `getContextBinds(true)`: the binds of the main keymap, restricted in the search modes -/
def Eng.mainBinds (e : Eng) : List (Seq × Bind) :=
  if e.lisearch then e.mainTbl.filter (fun sb => isearchCommands.contains sb.2.action)
  else if e.nonInc then e.mainTbl.filter (fun sb => nonIsearchCommands.contains sb.2.action)
  else e.mainTbl

/-- `MatchMain`. Returns engine, bind, command present, prefix. -/
def matchMain (e : Eng) : Eng × Bind × Bool × Bool :=
  if e.mainBinds.isEmpty then ({ e with keys := e.keys.popForce }, Bind.none, false, false) else
  let n := e.keys.buf.length + e.keys.mkeys.length
  let (e0, pfx0, read0, _) := dispatchKeys e.mainBinds n e [] [] false
  let (e1, bind1, pfx1, read) := matchCharacter e0 e0.active pfx0 read0
  let e2' := { e1 with keys := if pfx1 then e1.keys.matchedPrefix read else e1.keys.matchedKeys read [] }
  let (e2, bind, pfx) := nonIncOverrideR e2' bind1 pfx1 read
  if isEscapeKey e2 && !e2.isEmacs && pfx then
    -- handleEscape(true)
    let b := if e2.prefixed.action = "vi-movement-mode" then e2.prefixed else Bind.none
    let e3 := { e2 with prefixed := Bind.none, keys := e2.keys.popForce }
    (e3, b, b.action ≠ "" && hasCmd e3 b, false)
  else (e2, bind, hasCmd e2 bind, pfx)

end RLV

namespace RLV

/-- `MatchLocal`: `localTbl` = binds of the active local keymap (already normalised),
`isIsearch` = the local keymap is isearch. Returns engine, bind, command present, prefix. -/
def matchLocal (e : Eng) (localTbl : List (Seq × Bind)) (isIsearch : Bool) : Eng × Bind × Bool × Bool :=
  if localTbl.isEmpty then (e, Bind.none, false, false) else
  let n := e.keys.buf.length + e.keys.mkeys.length
  let (e1, pfx, read, matched) := dispatchKeys localTbl n e [] [] false
  let bind := e1.active
  let cmd := hasCmd e1 bind
  let e2 := { e1 with keys := if pfx then e1.keys.matchedPrefix read
                              else e1.keys.matchedKeys matched (read.drop matched.length) }
  if isEscapeKey e2 && (pfx || !cmd) then
    -- handleEscape(false)
    if e2.prefixed.action = "vi-movement-mode" then
      let b := e2.prefixed
      let e3 := { e2 with prefixed := Bind.none }
      (e3, b, hasCmd e3 b, false)
    else if e2.isEmacs && isIsearch then
      let b : Bind := ⟨"emacs-editing-mode", false⟩
      let e3 := { e2 with prefixed := Bind.none, keys := e2.keys.popForce }
      (e3, b, hasCmd e3 b, false)
    else
      ({ e2 with prefixed := Bind.none }, Bind.none, false, false)
  else (e2, bind, cmd, pfx)

end RLV
