import RLV.Gen.Unicode
namespace RLV.Uni
open RLV.Gen.Unicode

def inRanges : List (Nat × Nat) → Nat → Bool
  | [], _ => false
  | (lo, hi) :: rest, c => (lo ≤ c && c ≤ hi) || inRanges rest c

def applyDelta : List (Nat × Nat × Int) → Nat → Nat
  | [], c => c
  | (lo, hi, d) :: rest, c => if lo ≤ c ∧ c ≤ hi then ((c : Int) + d).toNat else applyDelta rest c

def isSpace (c : Nat) : Bool := inRanges isSpaceRanges c
def isPunct (c : Nat) : Bool := inRanges isPunctRanges c
def isPrint (c : Nat) : Bool := inRanges isPrintRanges c
def isControl (c : Nat) : Bool := inRanges isControlRanges c
def isLetter (c : Nat) : Bool := inRanges isLetterRanges c
def isUpper (c : Nat) : Bool := inRanges isUpperRanges c
def isLower (c : Nat) : Bool := inRanges isLowerRanges c
def toUpper (c : Nat) : Nat := applyDelta toUpperDeltas c
def toLower (c : Nat) : Nat := applyDelta toLowerDeltas c

-- facts used by theorems, re-checked on the regenerated tables
theorem space_ascii : ∀ c, c < 128 → (isSpace c = (c = 32 ∨ (9 ≤ c ∧ c ≤ 13))) := by decide +kernel
theorem upper_lower_ascii : ∀ c, c < 128 → toLower (toUpper c) = toLower c := by decide +kernel
#eval (isSpace 0x3000, isPunct 33, toUpper 97, toLower 0x130, isLetter 0xe9)
end RLV.Uni
