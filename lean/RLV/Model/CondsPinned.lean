import RLV.Model.Conds
namespace RLV.Conds

-- What the pinned parser implements: only the innermost enclosing condition counts.
mutual
  def Blk.specIn (on : Bool) : Blk → List Nat
    | .act a => if on then [a] else []
    | .ite e t f => specInL e t ++ specInL (!e) f
  def specInL (on : Bool) : List Blk → List Nat
    | [] => []
    | b :: bs => b.specIn on ++ specInL on bs
end

def runPinned (st : List Bool × List Nat) (ds : List Dir) := ds.foldl stepPinned st

def top? (stk : List Bool) : Bool := stk.head?.getD true

mutual
  theorem runP_blk (b : Blk) : ∀ (c : Bool) (stk : List Bool) (out : List Nat),
      runPinned (c :: stk, out) b.flat = (c :: stk, out ++ b.specIn c) := by
    intro c stk out
    cases b with
    | act a =>
      simp [Blk.flat, runPinned, stepPinned, Blk.specIn]
      cases c <;> simp
    | ite e t f =>
      simp only [Blk.flat, runPinned, List.foldl_append, List.foldl_cons, List.foldl_nil]
      have h1 := runP_blks t e (c :: stk) out
      simp only [runPinned] at h1
      simp only [stepPinned]
      rw [h1]
      have h2 := runP_blks f (!e) (c :: stk) (out ++ specInL e t)
      simp only [runPinned] at h2
      rw [h2]
      simp [Blk.specIn, List.append_assoc]
  theorem runP_blks (bs : List Blk) : ∀ (c : Bool) (stk : List Bool) (out : List Nat),
      runPinned (c :: stk, out) (flatL bs) = (c :: stk, out ++ specInL c bs) := by
    intro c stk out
    cases bs with
    | nil => simp [flatL, runPinned, specInL]
    | cons b bs =>
      simp only [flatL, runPinned, List.foldl_append]
      have h1 := runP_blk b c stk out
      simp only [runPinned] at h1
      rw [h1]
      have h2 := runP_blks bs c stk (out ++ b.specIn c)
      simp only [runPinned] at h2
      rw [h2]
      simp [specInL, List.append_assoc]
end

/-- C13 (pinned, partial): the parser as it is fires a directive iff its innermost condition holds. -/
theorem exec_pinned_eq_specIn (bs : List Blk) :
    (runPinned ([true], []) (flatL bs)).2 = specInL true bs := by
  rw [runP_blks]; simp

-- Programs in which nothing conditional is nested inside an inactive block.
mutual
  def Blk.flatOK (on : Bool) : Blk → Bool
    | .act _ => true
    | .ite e t f => on && flatOKL (on && e) t && flatOKL (on && !e) f
  def flatOKL (on : Bool) : List Blk → Bool
    | [] => true
    | b :: bs => b.flatOK on && flatOKL on bs
end

mutual
  theorem specIn_eq_spec_blk (b : Blk) : ∀ on, b.flatOK on = true → b.specIn on = b.spec on := by
    intro on h
    cases b with
    | act a => simp [Blk.specIn, Blk.spec]
    | ite e t f =>
      simp only [Blk.flatOK, Bool.and_eq_true] at h
      obtain ⟨⟨hon, ht⟩, hf⟩ := h
      subst hon
      simp only [Bool.true_and] at ht hf
      simp only [Blk.specIn, Blk.spec, Bool.true_and]
      rw [specIn_eq_spec_blks t e ht, specIn_eq_spec_blks f (!e) hf]
  theorem specIn_eq_spec_blks (bs : List Blk) : ∀ on, flatOKL on bs = true → specInL on bs = specL on bs := by
    intro on h
    cases bs with
    | nil => simp [specInL, specL]
    | cons b bs =>
      simp only [flatOKL, Bool.and_eq_true] at h
      simp only [specInL, specL]
      rw [specIn_eq_spec_blk b on h.1, specIn_eq_spec_blks bs on h.2]
end

/-- Inside the carve-out the pinned parser meets the property. -/
theorem exec_pinned_partial (bs : List Blk) (h : flatOKL true bs = true) :
    (runPinned ([true], []) (flatL bs)).2 = specL true bs := by
  rw [exec_pinned_eq_specIn, specIn_eq_spec_blks bs true h]

/-- non-vacuity: a two-level program inside the carve-out, and the witness outside it -/
example : flatOKL true [.ite true [.ite false [.act 1] [.act 2]] [.act 3]] = true := by decide
example : (runPinned ([true], []) (flatL [.ite false [.ite true [.act 7] []] []])).2 = [7]
    ∧ specL true [.ite false [.ite true [.act 7] []] []] = [] := by decide

end RLV.Conds
