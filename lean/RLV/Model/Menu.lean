import RLV.Model.Core
import RLV.Model.MenuSel
namespace RLV.Menu
open RLV.Core (G Panic)

structure Grp where
  rows : List (List Nat)      -- candidate ids
  aliased : Bool := false
  ncols : Nat                 -- len(columnsWidth)
  maxX : Nat
  maxY : Nat
  posX : Int := -1
  posY : Int := -1
  isCurrent : Bool := false
deriving Repr

def rowLen (g : Grp) (y : Int) : G Int :=
  if y < 0 ∨ y ≥ g.rows.length then throw (.oob "rows[posY]") else pure ((g.rows.getD y.toNat []).length : Int)

/-- findFirstCandidate(x, y) -/
def findFirst (g : Grp) (x y : Int) : Nat → G (Grp × Bool × Bool)
  | 0 => pure (g, false, false)   -- fuel exhausted: treated as return (never in well-formed grids)
  | fuel+1 => do
    let rl ← rowLen g g.posY
    if g.posX > rl - 1 then
      let mut g := { g with posY := g.posY + y + x }
      if g.posY < 0 then
        if g.posX = 0 then return ({ g with posX := 0, posY := 0 }, true, false)
        g := { g with posY := (g.rows.length : Int) - 1, posX := g.posX - 1 }
      if g.posY > (g.maxY : Int) - 1 then
        g := { g with posY := 0 }
        if g.posX < (g.ncols : Int) - 1 then g := { g with posX := g.posX + 1 }
        else return (g, true, true)
      findFirst g x y fuel
    else pure (g, false, false)

/-- the selector state of a plain group, as `Menu2.Sel` (the shape the C15 theorems are about) -/
def toSel (g : Grp) : Menu2.Sel :=
  { rows := fun y => (g.rows.getD y []).length, R := g.rows.length, maxX := g.maxX, x := g.posX, y := g.posY }

/-- moveSelector(x, y) → (group, done, next), aliased groups -/
def moveSelectorAliased (g : Grp) (x y : Int) : G (Grp × Bool × Bool) := do
  let mut g := g
  if g.posX = -1 ∧ g.posY = -1 then
    if x ≠ 0 then g := { g with posY := g.posY + 1 } else g := { g with posX := g.posX + 1 }
  g := { g with posX := g.posX + x, posY := g.posY + y }
  let reverse := x < 0 ∨ y < 0
  if g.posX < 0 then
    if g.posY = 0 ∧ reverse then return ({ g with posX := 0, posY := 0 }, true, false)
    g := { g with posY := g.posY - 1 }
    let rl ← rowLen g g.posY
    g := { g with posX := rl - 1 }
  if g.posY < 0 then
    if g.posX = 0 then return ({ g with posX := 0, posY := 0 }, true, false)
    g := { g with posY := (g.rows.length : Int) - 1, posX := g.posX - 1 }
  if g.posY > (g.maxY : Int) - 1 then
    g := { g with posY := 0 }
    if g.posX < (g.maxX : Int) - 1 then g := { g with posX := g.posX + 1 }
    else return (g, true, true)
  let rl ← rowLen g g.posY
  if g.posX > rl - 1 then
    return ← findFirst g x y (g.rows.length * (g.ncols + 2) + 4)
  return (g, false, false)

/-- moveSelector(x, y) → (group, done, next): plain groups run the stage-wise `Menu2.move`
(`maxY = len(rows)` in every group the engine builds) -/
def moveSelector (g : Grp) (x y : Int) : G (Grp × Bool × Bool) :=
  if g.aliased then moveSelectorAliased g x y
  else do
    let r ← Menu2.move (toSel g) x y
    pure ({ g with posX := r.1.x, posY := r.1.y }, r.2.1, r.2.2)

def firstCell (g : Grp) : Grp := { g with posX := 0, posY := 0 }

def lastCell (g : Grp) : G Grp := do
  let g := { g with posY := (g.rows.length : Int) - 1, posX := (g.ncols : Int) - 1 }
  if g.aliased then
    let (g', _, _) ← findFirst g 0 (-1) (g.rows.length * (g.ncols + 2) + 4)
    return g'
  else
    let rl ← rowLen g g.posY
    return { g with posX := rl - 1 }

def selected (g : Grp) : G Nat := do
  let (x, y) := if g.posY = -1 ∨ g.posX = -1 then ((0 : Int), (0 : Int)) else (g.posX, g.posY)
  if y < 0 ∨ y ≥ g.rows.length then throw (.oob "rows[y]")
  let row := g.rows.getD y.toNat []
  if x < 0 ∨ x ≥ row.length then throw (.oob "rows[y][x]")
  return row.getD x.toNat 0

abbrev Menu := List Grp

def curIdx (m : Menu) : Option Nat := m.findIdx? (·.isCurrent)

/-- currentGroup(): the current one, else make the first non-empty group current -/
def currentGroup (m : Menu) : Menu × Option Nat :=
  match curIdx m with
  | some i => (m, some i)
  | none =>
    match m.findIdx? (fun g => !g.rows.isEmpty) with
    | some i => (m.modify i (fun g => { g with isCurrent := true }), some i)
    | none => (m, none)

def setCur (m : Menu) (i : Nat) : Menu :=
  m.mapIdx fun j g => { g with isCurrent := j == i }

/-- cycleNextGroup / cyclePreviousGroup (all groups assumed non-empty in the prototype) -/
def cycle (m : Menu) (next : Bool) : Menu :=
  match curIdx m with
  | none => m
  | some i =>
    let n := m.length
    let j := if next then (if i + 1 = n then 0 else i + 1) else (if i = 0 then n - 1 else i - 1)
    setCur m j

/-- Engine.Select(row, column) with a non-arrow key (Tab / Shift-Tab) -/
def select (m : Menu) (row col : Int) : G (Menu × Option Nat) := do
  let (m, ci) := currentGroup m
  match ci with
  | none => return (m, none)
  | some i =>
    let g := m.getD i { rows := [], ncols := 0, maxX := 0, maxY := 0 }
    if g.rows.isEmpty then return (m, none)
    -- adjustCycleKeys for non-arrow keys
    let (row, col) := if g.aliased then ((0 : Int), row) else (row, col)
    let (g', done, next) ← moveSelector g row col
    let m := m.set i g'
    if !done then
      return (m, some (← selected g'))
    let m := cycle m next
    match curIdx m with
    | none => return (m, none)
    | some j =>
      let gj := m.getD j g
      let gj ← if next then pure (firstCell gj) else lastCell gj
      let m := m.set j gj
      return (m, some (← selected gj))

/-- plain grid of `n` candidates with ids `base …`, `c ≥ 1` columns -/
def chunk (c : Nat) : Nat → List Nat → List (List Nat)
  | 0, _ => []
  | _, [] => []
  | f+1, l => l.take c :: chunk c f (l.drop c)

def plain (ids : List Nat) (c : Nat) : Grp :=
  let c := max c 1
  let rows := chunk c ids.length ids
  let nc := min c ids.length
  { rows := rows, ncols := nc, maxX := nc, maxY := rows.length }

end RLV.Menu
