import RLV.Model.Hist
/-! History across commands and calls (internal/history: Sources.Accept/Write, Shell.run's
SaveWithCommand, Shell.init, history.Init), on one in-memory source.

`acceptAndNextCall` is everything that happens between accept-line and the first key of the next call:

* `Sources.Accept` → `Write`: the line is appended to the source (unless blank, a duplicate of the last entry,
  or the source is full);
* `Shell.run` → `SaveWithCommand` → `Save`: since `fix: do not save the accepted line as an edit of a history
  line…` the line is NOT saved once it is accepted — only the deferred `Reset` runs (`saveAccepted`);
* `Shell.init`: `line.Set()`, `cursor.Set(0)`, `History.Reset()`, `history.Init` (position back on the line
  being typed, its edit history emptied), `History.Save()`. -/
namespace RLV.Hist
open RLV.Core

/-- `Save` once the line is accepted: only its deferred `Reset` runs -/
def saveAccepted (s : St) : St := reset s

def acceptAndNextCall (maxEntries : Int) (s : St) : G St := do
  let src' ← (if trim s.line = [] then pure s.src else do
    let (x, _) ← writeOne maxEntries s.src s.line
    pure x)
  let s1 := saveAccepted { s with src := src' }
  let s2 : St := { s1 with line := [], cur := ⟨0, -1⟩ }
  let s3 := reset s2
  let s4 := setLH { s3 with hpos := -1, cpos := -1 } (-1) {}
  save s4

/-- what the code did before that fix: the accepted line saved under the position it had before the source grew -/
def acceptAndNextCallOld (maxEntries : Int) (s : St) : G St := do
  let src' ← (if trim s.line = [] then pure s.src else do
    let (x, _) ← writeOne maxEntries s.src s.line
    pure x)
  let s1 ← save { s with src := src' }
  let s2 : St := { s1 with line := [], cur := ⟨0, -1⟩ }
  let s3 := reset s2
  let s4 := setLH { s3 with hpos := -1, cpos := -1 } (-1) {}
  save s4

/-- the commands of a user who walks through the history, searches it, types on the line being typed, and accepts:
each is the body of the command followed by the `Save` of `Shell.run` -/
inductive HOp where
  | up | down | type (c : Nat) | accept | search (fwd regex : Bool)
deriving Repr, DecidableEq

def typeChar (s : St) (c : Nat) : G St := do
  let cur := checkAppend s.line s.cur
  let l ← insert s.line cur.pos [c]
  pure { s with line := l, cur := { cur with pos := cur.pos + 1 } }

/-- `Sources.getLine(nil, nil)`: the line a history search matches against when the command gives none —
the last saved state of the line being typed (saved first when the position is on it) and its cursor -/
def searchLine (s : St) : G (St × List Nat × Int) := do
  let s ← (if s.hpos = -1 then do
      let t ← save { s with skip := false }
      pure { t with skip := s.skip }
    else pure s)
  match (getLH s (-1)).items.getLast? with
  | some u => pure (s, u.line, (curSet u.line ⟨0, -1⟩ u.pos).pos)
  | none => pure (s, [], 0)

/-- the body of history-search-backward/forward (`regex = false`) and of the substring searches (`true`):
`History.Save()`, then `InsertMatch(nil, nil, usePos = true, fwd, regex)` -/
def searchCmd (s : St) (fwd regex : Bool) : G St := do
  let s ← save s
  let (s, ml, mp) ← searchLine s
  pure (insertMatch s ml mp true fwd regex)

/-- one command; typing ON A HISTORY LINE (an edit of that line, which the library keeps with the line) is
outside what `runUnedited` follows: it stops there -/
def stepUnedited (m : Int) (s : St) : HOp → G St
  | .up => do let s ← save s; let s ← walk s 1; save s
  | .down => do let s ← save s; let s ← walk s (-1); save s
  | .type c => if s.hpos ≠ -1 then .error (.beyond "a history line is edited") else do
      let s ← typeChar s c; save s
  | .accept => do let s ← acceptAndNextCall m s; save s
  | .search fwd regex => do let s ← searchCmd s fwd regex; save s

def runUnedited (m : Int) : St → List HOp → G St
  | s, [] => pure s
  | s, op :: ops => do let s ← stepUnedited m s op; runUnedited m s ops

end RLV.Hist
