import RLV.Model.Core
namespace RLV.Sel
open RLV.Core

structure S where
  active : Bool := false
  visual : Bool := false
  visualLine : Bool := false
  bpos : Int := -1
  epos : Int := -1
deriving Repr, DecidableEq

/-- Selection.checkRange -/
def checkRange (l : Line) (b e : Int) : Int × Int × Bool :=
  if len l = 0 then (-1, -1, false)
  else if b < 0 ∧ e < 0 then (-1, -1, false)
  else if b > len l ∧ e > len l then (-1, -1, false)
  else
    let b := if b > len l then len l else b
    let e := if e > len l then len l else e
    -- a negative end is "pending": the other one becomes the start
    if b < 0 then (e, -1, true)
    else if e < 0 then (b, -1, true)
    else if b > e then (e, b, true) else (b, e, true)

/-- Selection.MarkRange -/
def markRange (l : Line) (s : S) (b e : Int) : S :=
  let (b, e, ok) := checkRange l b e
  if !ok then s else { s with active := true, bpos := b, epos := e }

/-- Selection.Mark -/
def mark (l : Line) (s : S) (pos : Int) : S :=
  if pos < 0 ∨ pos > len l then s else markRange l s pos (-1)

def visual (s : S) (line : Bool) : S := { s with visual := true, visualLine := line }
def reset (_ : S) : S := {}

/-- backwards scan for a newline in selectToCursor: returns new bpos -/
def scanBack (l : Line) : Nat → Int → G Int
  | 0, b => pure b
  | f+1, b =>
    if b ≥ 0 then do
      let c ← at_ l b
      if c = 10 then pure (b + 1) else scanBack l f (b - 1)
    else pure b

def scanFwd (l : Line) : Nat → Int → G Int
  | 0, e => pure e
  | f+1, e =>
    if e < len l then do
      let e := if e = -1 then 0 else e
      let c ← at_ l e
      if c = 10 then pure e else scanFwd l f (e + 1)
    else pure e

/-- Selection.selectToCursor -/
def selectToCursor (l : Line) (s : S) (cpos : Int) (b : Int) : G (Int × Int) := do
  let (b, e) := if cpos < b then (cpos, b) else (b, cpos)
  let (b, e) ← (do
    if s.visualLine then
      let b1 ← scanBack l (l.length + 2) (b - 1)
      let b1 := if b1 = -1 then 0 else b1
      let e1 ← scanFwd l (l.length + 2) e
      pure (b1, e1)
    else pure (b, e) : G (Int × Int))
  if b > e then pure (e, b) else pure (b, e)

/-- second half of `Pos`, from the checked stored range `(b1, e1)`: a pending end is replaced by
the cursor, a visual selection includes the character under its end, and the result is checked again.
It depends on the selection only through its `visual` / `visualLine` flags. -/
def posFrom (l : Line) (s : S) (cur : Cur) (b1 e1 : Int) : G (Int × Int) := do
  let cpos := (checkAppend l cur).pos
  let (b, e) ← (if e1 = -1 then selectToCursor l s cpos b1 else pure (b1, e1) : G (Int × Int))
  let e := if s.visual then e + 1 else e
  let r := checkRange l b e
  if !r.2.2 then return (-1, -1)
  return (r.1, r.2.1)

/-- Selection.Pos: returns (bpos, epos) and the updated selection (it stores the checked range) -/
def pos (l : Line) (s : S) (cur : Cur) : G (Int × Int × S) :=
  if len l = 0 ∨ !s.active then .ok (-1, -1, s) else
  let r := checkRange l s.bpos s.epos
  if !r.2.2 then .ok (r.1, r.2.1, s) else
  let s' := { s with bpos := r.1, epos := r.2.1 }
  match posFrom l s' cur r.1 r.2.1 with
  | .ok (b, e) => .ok (b, e, s')
  | .error x => .error x

/-- Selection.Text -/
def text (l : Line) (s : S) (cur : Cur) : G (List Nat × S) := do
  if len l = 0 then return ([], s)
  let (b, e, s) ← pos l s cur
  if b = -1 ∨ e = -1 then return ([], s)
  -- (*s.line)[bpos:epos]
  if b < 0 ∨ e > len l ∨ b > e then throw (.oob "text slice")
  return ((l.drop b.toNat).take (e - b).toNat, s)

/-- Selection.Cut for the non-surround case: returns (cut text, new line, new selection) -/
def cut (l : Line) (s : S) (cur : Cur) : G (List Nat × Line × S) := do
  if len l = 0 then return ([], l, s)
  let (b, e, s1) ← pos l s cur
  if b = -1 ∨ e = -1 then return ([], l, reset s1)
  let (t, s2) ← text l s1 cur
  let l' ← Core.cut l b e
  return (t, l', reset s2)

/-- Selection.Pop: the selected text and its range (the selection is reset afterwards; the cursor
position it also returns is not modelled) -/
def pop (l : Line) (s : S) (cur : Cur) : G (List Nat × Int × Int) := do
  if len l = 0 then return ([], -1, -1)
  let (b, e, _) ← pos l s cur
  if b = -1 ∨ e = -1 then return ([], -1, -1)
  if b < 0 ∨ e > len l ∨ b > e then throw (.oob "pop slice")
  return ((l.drop b.toNat).take (e - b).toNat, b, e)

end RLV.Sel
