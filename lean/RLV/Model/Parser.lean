import RLV.Model.Scan
/-! The inputrc parser above the line scanner (inputrc/parse.go: `Parser.Parse`, `next`, `doBind`,
`doSet`, `do`; inputrc/config.go for the handler used by the library), in the panic monad `G`.

* a file is a byte list; `bufio.Scanner` + `ScanLines` is `splitLines` with its token limit;
* `[]rune(scanner.Text())` is `runesOfBytes`;
* the handler is an interface of the model (`Handler σ`): any state type, any total functions.
  `get` may answer a value of an unsupported dynamic type — the parser's `panic("unsupported type")`
  branch is part of the model;
* `$include` recursion is bounded by the parser's own depth limit (`maxIncludeDepth = 10`): the
  definition recurses on the remaining budget, which is why it is accepted as total. -/
namespace RLV.Inputrc
open RLV.Core (G Panic)

abbrev Str := List Nat

inductive Val
  | b (v : Bool)
  | s (v : Str)
  | i (v : Int)
deriving Repr, DecidableEq

/-- what `Handler.Get` may answer: nil, one of the three supported kinds, or anything else -/
inductive GetRes
  | nil
  | b | s | i
  | unsupported
deriving Repr, DecidableEq

inductive ReadRes
  | notExist
  | failed
  | ok (bytes : List Nat)
deriving Repr, DecidableEq

/-- error values the parser can produce (`ParseError` kinds and errors passed through) -/
inductive EKind
  | scan (e : PErr)
  | invalidKeymap | invalidEditingMode | elseWithoutIf | endifWithoutIf | includeDepth
  | atoi            -- `strconv.Atoi` failed for a variable the handler says is an int
  | handler         -- an error returned by the handler
  | tooLong         -- `bufio.Scanner: token too long`
deriving Repr, DecidableEq

def EKind.name : EKind → String
  | .scan e => e.name | .invalidKeymap => "invalidKeymap" | .invalidEditingMode => "invalidEditingMode"
  | .elseWithoutIf => "elseWithoutIf" | .endifWithoutIf => "endifWithoutIf" | .includeDepth => "includeDepth"
  | .atoi => "atoi" | .handler => "handler" | .tooLong => "tooLong"

structure Handler (σ : Type) where
  readFile : σ → Str → σ × ReadRes
  do_ : σ → Str → Str → σ × Bool            -- `true`: an error was returned
  set : σ → Str → Val → σ × Bool
  get : σ → Str → GetRes
  bind : σ → Str → Str → Str → Bool → σ × Bool

structure Opts where
  haltOnErr : Bool := false
  strict : Bool := false
  mode : Str := []
  term : Str := []
  app : Str := []
deriving Repr

structure PSt where
  keymap : Str
  conds : List Bool
  errs : List EKind := []
deriving Repr

/-- the condition stack has its top at the head (`p.conds[len(p.conds)-1]`) -/
def PSt.top (p : PSt) : Bool := p.conds.head?.getD true

/-- `strconv.Atoi`: optional sign, one or more ASCII digits, value inside the 64-bit range -/
def digitsVal : List Nat → Option Nat
  | [] => none
  | ds => if ds.all (fun c => 0x30 ≤ c && c ≤ 0x39) then some (ds.foldl (fun a c => a * 10 + (c - 0x30)) 0) else none

def atoi (s : Str) : Option Int :=
  match s with
  | [] => none
  | c :: t =>
    let (neg, ds) := if c = 0x2d then (true, t) else if c = 0x2b then (false, t) else (false, s)
    match digitsVal ds with
    | none => none
    | some n =>
      if neg then (if n ≤ 9223372036854775808 then some (-(n : Int)) else none)
      else (if n ≤ 9223372036854775807 then some (n : Int) else none)

def validKeymaps : List Str :=
  ["emacs", "emacs-standard", "emacs-meta", "emacs-ctlx", "vi", "vi-move", "vi-command", "vi-insert"].map str

/-- `doBind` -/
def doBind {σ} (H : Handler σ) (p : PSt) (h : σ) (seq action : Str) (mac : Bool) : PSt × σ × Option EKind :=
  if !p.top then (p, h, none) else
  let r := H.bind h p.keymap seq action mac
  (p, r.1, if r.2 then some .handler else none)

/-- `doSet` -/
def doSet {σ} (H : Handler σ) (o : Opts) (p : PSt) (h : σ) (name value : Str) : G (PSt × σ × Option EKind) :=
  if !p.top then pure (p, h, none) else
  if name = str "keymap" then
    if o.strict ∧ ¬ (value ∈ validKeymaps) then pure (p, h, some .invalidKeymap)
    else pure ({ p with keymap := value }, h, none)
  else if name = str "editing-mode" then
    if value = str "emacs" ∨ value = str "vi" then
      let r := H.set h name (.s value)
      pure (p, r.1, if r.2 then some .handler else none)
    else pure (p, h, some .invalidEditingMode)
  else
    let fin (v : Val) : G (PSt × σ × Option EKind) :=
      let r := H.set h name v
      pure (p, r.1, if r.2 then some .handler else none)
    match H.get h name with
    | .unsupported => throw (.oob "unsupported type")
    | .b => fin (.b (lowerS value = str "on" ∨ value = str "1"))
    | .s => fin (.s value)
    | .i => match atoi value with
      | some n => fin (.i n)
      | none => pure (p, h, some .atoi)
    | .nil =>
      match atoi value with
      | some n => fin (.i n)
      | none =>
        if lowerS value = str "off" then fin (.b false)
        else if lowerS value = str "on" then fin (.b true)
        else fin (.s value)

def hasPrefix (pre s : Str) : Bool := pre.isPrefixOf s

/-- the test of an `$if` -/
def evalIf (o : Opts) (val : Str) : Bool :=
  if hasPrefix (str "mode=") val then val.drop 5 = o.mode
  else if hasPrefix (str "term=") val then val.drop 5 = o.term
  else lowerS val = o.app

/-- `do` (constructs). `nested` runs an included file (absent when the depth limit is reached). -/
def doConstruct {σ} (H : Handler σ) (o : Opts) (nested : Option (List Nat → σ → G σ))
    (p : PSt) (h : σ) (kw val : Str) : G (PSt × σ × Option EKind) :=
  if kw = str "$if" then pure ({ p with conds := evalIf o val :: p.conds }, h, none)
  else if kw = str "$else" then
    if p.conds.length = 1 then pure (p, h, some .elseWithoutIf)
    else pure ({ p with conds := (!p.top) :: p.conds.tail }, h, none)
  else if kw = str "$endif" then
    if p.conds.length = 1 then pure (p, h, some .endifWithoutIf)
    else pure ({ p with conds := p.conds.tail }, h, none)
  else if kw = str "$include" then
    if !p.top then pure (p, h, none) else
    let r := H.readFile h val
    match r.2 with
    | .notExist => pure (p, r.1, none)
    | .failed => pure (p, r.1, some .handler)
    | .ok bytes =>
      match nested with
      | none => pure (p, r.1, some .includeDepth)
      | some run => do
        let h' ← run bytes r.1
        pure (p, h', none)           -- errors of the included file stay in its own parser
  else
    if !p.top then pure (p, h, none) else
    let r := H.do_ h kw val
    pure (p, r.1, if r.2 then some .handler else none)

/-- what the scanner delivers for one line: (key sequence or name, value, token kind) -/
abbrev Tk := Str × Str × Tok

/-- `next` after `readNext`: the token is handed to `doBind`, `doSet` or `do` -/
def execTok {σ} (H : Handler σ) (o : Opts) (nested : Option (List Nat → σ → G σ))
    (p : PSt) (h : σ) (t : Tk) : G (PSt × σ × Option EKind) :=
  match t.2.2 with
  | .bind => pure (doBind H p h t.1 t.2.1 false)
  | .bindMacro => pure (doBind H p h t.1 t.2.1 true)
  | .set => doSet H o p h t.1 t.2.1
  | .construct => doConstruct H o nested p h t.1 t.2.1
  | .none => pure (p, h, none)

/-- `next`: one line -/
def nextLine {σ} (H : Handler σ) (o : Opts) (nested : Option (List Nat → σ → G σ))
    (p : PSt) (h : σ) (r : RS) : G (PSt × σ × Option EKind) := do
  match ← scanLine r with
  | none => pure (p, h, none)
  | some (.error e) => pure (p, h, some (.scan e))
  | some (.ok t) => execTok H o nested p h t

def maxTok : Nat := 65536

/-- `bufio.ScanLines` over the whole input: the lines (without `\n` and one trailing `\r`) and
whether scanning ended with `ErrTooLong`. `cur` is the line being collected, reversed. -/
def splitLines : List Nat → List Nat → List (List Nat) → List (List Nat) × Bool
  | [], cur, acc =>
    if cur.isEmpty then (acc.reverse, false)
    else if cur.length + 1 > maxTok then (acc.reverse, true)   -- the buffer is full before end of input is seen
    else (((if cur.head? = some 13 then cur.tail else cur).reverse :: acc).reverse, false)
  | b :: rest, cur, acc =>
    if b = 10 then
      if cur.length + 1 > maxTok then (acc.reverse, true)
      else splitLines rest [] ((if cur.head? = some 13 then cur.tail else cur).reverse :: acc)
    else splitLines rest (b :: cur) acc

/-- the loop of `Parser.Parse` over the scanned lines -/
def parseLines {σ} (H : Handler σ) (o : Opts) (nested : Option (List Nat → σ → G σ)) :
    List (List Nat) → PSt → σ → G (PSt × σ × Option EKind)
  | [], p, h => pure (p, h, none)
  | l :: ls, p, h => do
    let (p', h', e) ← nextLine H o nested p h (runesOfBytes l).toArray
    match e with
    | none => parseLines H o nested ls p' h'
    | some k =>
      let p'' := { p' with errs := p'.errs ++ [k] }
      if o.haltOnErr then pure (p'', h', some k) else parseLines H o nested ls p'' h'

/-- `Parser.Parse` given how included files are run -/
def parseWith {σ} (H : Handler σ) (nested : Option (List Nat → σ → G σ)) (o : Opts) (bytes : List Nat) (h : σ) :
    G (σ × List EKind × Option EKind) :=
  let sl := splitLines bytes [] []
  do
    let (p, h', e) ← parseLines H o nested sl.1 { keymap := str "emacs", conds := [true] } h
    match e with
    | some k => pure (h', p.errs, some k)
    | none =>
      if sl.2 then pure (h', p.errs ++ [.tooLong], some .tooLong)
      else pure (h', p.errs, none)

/-- `Parser.Parse` with `budget` levels of `$include` left (10 for a top-level parse).
Returns the handler state, the collected errors and the returned error. An included file is
parsed by a fresh parser: only app, term and mode are passed on, and its errors stay with it. -/
def parseD {σ} (H : Handler σ) : Nat → Opts → List Nat → σ → G (σ × List EKind × Option EKind)
  | 0, o, bytes, h => parseWith H none o bytes h
  | b + 1, o, bytes, h =>
    parseWith H (some (fun bs h0 => do
      let r ← parseD H b { o with haltOnErr := false, strict := false } bs h0
      pure r.1)) o bytes h

def maxIncludeDepth : Nat := 10

def parse {σ} (H : Handler σ) (o : Opts) (bytes : List Nat) (h : σ) : G (σ × List EKind × Option EKind) :=
  parseD H maxIncludeDepth o bytes h

/-! ### The library's own handler (`inputrc.Config`) with a recording of every call -/

inductive Call
  | bind (km seq act : Str) (mac : Bool)
  | set (name : Str) (v : Val)
  | do_ (kw val : Str)
  | read (name : Str)
deriving Repr, DecidableEq

structure Cfg where
  vars : List (Str × Val) := []
  files : List (Str × List Nat) := []
  calls : List Call := []
deriving Repr

def cfgHandler : Handler Cfg where
  readFile c n := ({ c with calls := c.calls ++ [.read n] },
    match c.files.lookup n with | some b => .ok b | none => .notExist)
  do_ c k v := ({ c with calls := c.calls ++ [.do_ k v] }, false)
  set c n v := ({ c with vars := (n, v) :: c.vars.filter (fun e => e.1 != n), calls := c.calls ++ [.set n v] }, false)
  get c n := match c.vars.lookup n with
    | none => .nil | some (.b _) => .b | some (.s _) => .s | some (.i _) => .i
  bind c km s a m := ({ c with calls := c.calls ++ [.bind km s a m] }, false)

end RLV.Inputrc
