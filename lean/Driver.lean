import RLV.Model.Bind
import RLV.Model.Comp
import RLV.Model.CompLine
import RLV.Model.Cpr
import RLV.Model.Core
import RLV.Model.Disp
import RLV.Model.Esc
import RLV.Model.Hist
import RLV.Model.HistCalls
import RLV.Model.Keys
import RLV.Model.MLoop
import RLV.Model.Kill
import RLV.Model.Move
import RLV.Model.Loop
import RLV.Model.Menu
import RLV.Model.MenuSel
import RLV.Model.Scan
import RLV.Model.HistWrite
import RLV.Model.HistFile
import RLV.Model.Macro
import RLV.Model.Parser
import RLV.Model.Sel
import RLV.Model.Term
import RLV.Model.TermRun
import RLV.Model.Tok
import RLV.Model.Uni
import RLV.Model.Utf8

open RLV

def parseNats (s : String) : List Nat :=
  if s.isEmpty || s == "-" then [] else (s.splitOn ".").filterMap String.toNat?

def parseList (s : String) (sep : String) : List String :=
  if s.isEmpty || s == "-" then [] else s.splitOn sep

def showNats (l : List Nat) : String :=
  if l.isEmpty then "-" else ".".intercalate (l.map toString)

def showG (r : Core.G (List Nat)) : String :=
  match r with
  | .ok l => "ok " ++ showNats l
  | .error e => e.show

open RLV.Hist in
def undoSession (ops : List String) (src : List (List Nat) := []) : String := Id.run do
  let mut s : St := { src := src }
  -- init: Save()
  match save s with
  | .ok s' => s := s'
  | .error _ => return "panic-init"
  let mut out : List String := []
  for op in ops do
    let r : Core.G St := do
      let mut t := s
      match op.splitOn ":" with
      | ["I", c, pre, skip] =>
        if pre == "1" then t ← save t
        if skip == "1" then t := { t with skip := true }
        let cur := Core.checkAppend t.line t.cur
        let l ← Core.insert t.line cur.pos [c.toNat?.getD 97]
        t := { t with line := l, cur := { cur with pos := cur.pos + 1 } }
      | ["B", pre, skip] =>
        if pre == "1" then t ← save t
        if skip == "1" then t := { t with skip := true }
        let cur := Core.checkAppend t.line t.cur
        let cur := { cur with pos := if cur.pos > 0 then cur.pos - 1 else cur.pos }
        let l ← Core.cutRune t.line cur.pos
        t := { t with line := l, cur := cur }
      | ["M", d] =>
        t := { t with skip := true }
        let cur := Core.checkAppend t.line t.cur
        t := { t with cur := Core.checkAppend t.line { cur with pos := cur.pos + d.toInt?.getD 0 } }
      | ["W", d] => t ← save t; t ← walk t (d.toInt?.getD 0)
      | ["A"] => t ← acceptAndNextCall (-1) t
      | ["S", fwd, regex] => t ← searchCmd t (fwd == "1") (regex == "1")
      | ["U"] => t ← undo t
      | ["R"] => t ← redo t
      | _ => pure ()
      save t
    match r with
    | .ok t =>
      s := t
      let c := Core.checkAppend s.line s.cur
      out := out ++ [s!"{showNats s.line}/{c.pos}/{(getLH s (lineKey s)).pos}"]
    | .error e =>
      out := out ++ [e.show]
      return " ".intercalate out
  return " ".intercalate out

/-- main keymap session: returns event strings -/
partial def mainLoop (e : Eng) (chunks : List (List Nat)) (fuel : Nat) (acc : List String) : List String :=
  if fuel = 0 then acc ++ ["FUEL"] else
  let e := { e with keys := e.keys.flushUsed }
  -- WaitAvailableKeys
  let needRead := !((!e.keys.buf.isEmpty && !e.keys.mustWait) || !e.keys.mkeys.isEmpty)
  match (if needRead then chunks else [[]]), needRead with
  | [], true => acc ++ ["EOF"]
  | c :: cs, nr =>
    let e := if nr then { e with keys := { e.keys with buf := e.keys.buf ++ c } } else e
    let chunks' := if nr then cs else chunks
    let (e', bind, cmd, pfx) := matchMain e
    let ev := s!"{bind.action}/{if pfx then 1 else 0}/{if cmd then 1 else 0}/{showNats e'.keys.matched}/{showNats e'.keys.buf}"
    mainLoop e' chunks' (fuel - 1) (acc ++ [ev])
  | [], false => acc

partial def localLoop (e : Eng) (lt : List (Seq × Bind)) (isearch : Bool) (chunks : List (List Nat)) (fuel : Nat) (acc : List String) : List String :=
  if fuel = 0 then acc ++ ["FUEL"] else
  let e := { e with keys := e.keys.flushUsed }
  let needRead := !((!e.keys.buf.isEmpty && !e.keys.mustWait) || !e.keys.mkeys.isEmpty)
  match (if needRead then chunks else [[]]), needRead with
  | [], true => acc ++ ["EOF"]
  | c :: cs, nr =>
    let e := if nr then { e with keys := { e.keys with buf := e.keys.buf ++ c } } else e
    let chunks' := if nr then cs else chunks
    let (e', bind, cmd, pfx) := matchLocal e lt isearch
    let ev := s!"{bind.action}/{if pfx then 1 else 0}/{if cmd then 1 else 0}/{showNats e'.keys.matched}"
    localLoop e' lt isearch chunks' (fuel - 1) (acc ++ [ev])
  | [], false => acc

def step (line : String) : String :=
  match (line.trimAscii.toString.splitOn " ") with
  | ["main", emacs, regs, tbl, chunks] =>
    let table : List (List Nat × Bind) := (parseList tbl ";").filterMap fun ent =>
      match ent.splitOn ":" with
      | [rs, act, m] => some (parseNats rs, ⟨if act == "_" then "" else act, m == "1"⟩)
      | _ => none
    let e : Eng := { mainTbl := norm table, isEmacs := emacs == "1", viInsert := emacs != "1", registered := parseList regs "," }
    let cs := (parseList chunks ",").map parseNats
    " ".intercalate (mainLoop e cs 64 [])
  | ["ins", l, pos, cs] => showG (Core.insert (parseNats l) (pos.toInt?.getD 0) (parseNats cs))
  | ["insb", l, b, e, cs] => showG (Core.insertBetween (parseNats l) (b.toInt?.getD 0) (e.toInt?.getD 0) (parseNats cs))
  | ["cut", l, b, e] => showG (Core.cut (parseNats l) (b.toInt?.getD 0) (e.toInt?.getD 0))
  | ["cutr", l, pos] => showG (Core.cutRune (parseNats l) (pos.toInt?.getD 0))
  | ["ckcmd", l, pos, mark] =>
    match Core.checkCommand (parseNats l) ⟨pos.toInt?.getD 0, mark.toInt?.getD 0⟩ with
    | .ok c => s!"ok {c.pos} {c.mark}"
    | .error e => e.show
  | ["undo", ops] => undoSession (parseList ops ",")
  | ["walk", src, ops] => undoSession (parseList ops ",") ((parseList src ",").map parseNats)
  | ["hwrite", flags, sizeInt, sizeStr, line, srcs] =>
    let ss : List (HistW.Str × HistW.Src) := (parseList srcs ";").filterMap (fun f =>
      match f.splitOn ":" with
      | [n, k, es] => some (parseNats n, { kind := if k == "1" then .file else .memory, entries := (parseList es ",").map (fun e => if e == "e" then [] else parseNats e) })
      | _ => none)
    let maxE := HistW.maxEntries (sizeInt.toInt?.getD 0) (sizeStr == "1")
    let out := HistW.accept (flags.startsWith "1") (flags.endsWith "1") maxE (parseNats line) ss
    let sorted := out.toArray.qsort (fun a b => showNats a.1 < showNats b.1) |>.toList
    "ok " ++ ";".intercalate (sorted.map fun e =>
      s!"{showNats e.1}:{if e.2.entries.isEmpty then "-" else ",".intercalate (e.2.entries.map fun x => if x.isEmpty then "e" else showNats x)}")
  | ["macro", start, cmds, stop] =>
    -- start keys, the keys of each command run while recording (a;b;c), the keys of the stop command
    let cs := (parseList cmds ";").map parseNats
    let m := Macro.stopRecord (cs.foldl Macro.recordKeys (Macro.recordKeys (Macro.startRecord {}) (parseNats start))) (parseNats stop)
    let stored := match m.stored with | some s => showNats s | none => "none"
    s!"ok {stored} {showNats ((Macro.runLast m).map (· % 256))}"
  | ["hsearch", src, w0, ml, mp, flags] =>
    -- entries, initial walk, line and cursor to match against, flags usePos/fwd/regex
    let s0 : Hist.St := { src := (parseList src ",").map parseNats }
    match (do
        let s1 ← Hist.save s0
        let s2 ← (if w0 == "0" then pure s1 else do let t ← Hist.save s1; Hist.walk t (w0.toInt?.getD 0) : Core.G Hist.St)
        pure s2 : Core.G Hist.St) with
    | .error e => e.show
    | .ok s2 =>
      let fl := flags.toList
      let s3 := Hist.insertMatch s2 (parseNats ml) (mp.toInt?.getD 0) (fl.getD 0 '0' == '1') (fl.getD 1 '0' == '1') (fl.getD 2 '0' == '1')
      s!"ok {showNats s3.line} {(Core.checkAppend s3.line s3.cur).pos}"
  | ["hwritef", file, line, rec] =>
    -- fileHistory.Write on a file image; `rec` is the record the real encoder produced for this block
    showNats (HistFile.writeRec (fun _ => parseNats rec) HistW.trim (parseNats file) (parseNats line))
  | ["hopen", file, table] =>
    -- openHist on a file image; the decoder is the table piece=block the harness obtained from encoding/json
    let tbl : List (List Nat × List Nat) := (parseList table ";").filterMap (fun f =>
      match f.splitOn "=" with
      | [p, b] => some (parseNats p, parseNats b)
      | _ => none)
    let es := HistFile.openHist (fun p => tbl.lookup p) (parseNats file)
    if es.isEmpty then "-" else ",".intercalate (es.map showNats)
  | ["rnext", rs] =>
    let r : Inputrc.RS := (parseNats rs).toArray
    match Inputrc.scanLine r with
    | .error e => e.show
    | .ok none => "skip"
    | .ok (some (.error e)) => s!"err {e.name}"
    | .ok (some (.ok (d, v, t))) => s!"ok {t.name} {showNats d} {showNats v}"
  | ["menu", grps, steps] =>
    let m0 : Menu.Menu := (parseList grps ";").filterMap fun g =>
      match g.splitOn ":" with
      | [c, ids] => some (Menu.plain (parseNats ids) (c.toNat?.getD 1))
      | _ => none
    Id.run do
      let mut m := m0
      let mut out : List String := []
      for st in parseList steps "," do
        match Menu.select m (if st == "f" then 1 else -1) 0 with
        | .ok (m', some v) => m := m'; out := out ++ [toString v]
        | .ok (m', none) => m := m'; out := out ++ ["none"]
        | .error e => out := out ++ [e.show]; break
      return " ".intercalate out
  | ["tok", kind, fn, l, pos] =>
    let line := parseNats l
    let p := pos.toInt?.getD 0
    let tk := if kind == "w" then Tok.tokenize line p else Tok.tokenizeSpace line p
    let r : Core.G Int := match fn with
      | "fwd" => Tok.forward line tk
      | "fwe" => Tok.forwardEnd tk
      | _ => Tok.backward tk
    match r with
    | .ok v => s!"ok {v} {tk.2.1} {tk.2.2} {"|".intercalate (tk.1.map showNats)}"
    | .error e => e.show
  | ["sel", l, cp, b, e, vis, vl] =>
    let line := parseNats l
    let cur : Core.Cur := ⟨cp.toInt?.getD 0, -1⟩
    let s0 : Sel.S := {}
    let s1 := Sel.markRange line s0 (b.toInt?.getD 0) (e.toInt?.getD 0)
    let s1 := if vis == "1" then Sel.visual s1 (vl == "1") else s1
    match (do
        let (pb, pe, s2) ← Sel.pos line s1 cur
        let (t, l2, _) ← Sel.cut line s2 cur
        let (yt, _, _) ← Sel.pop line s1 cur
        pure (pb, pe, t, l2, yt) : Core.G _) with
    | .ok (pb, pe, t, l2, yt) => s!"ok {pb} {pe} {showNats t} {showNats l2} {showNats yt}"
    | .error e => e.show
  | ["refresh", w, prevRow, pp, l, pos] =>
    let toks := Disp.refresh (w.toNat?.getD 80) [62, 32] [9492, 32] (prevRow.toNat?.getD 0) (pp == "1") (parseNats l) (pos.toNat?.getD 0)
    let cc := Disp.coordsCursor (w.toNat?.getD 80) (parseNats l) (pos.toNat?.getD 0) 2
    s!"{cc.2} " ++ " ".intercalate (toks.map Disp.showTk)
  | ["refresh2", w, la, pa, lb, pb, pr] =>
    -- the redisplay of buffer B over the frame of buffer A (prompt "> " on row 0): its tokens, then the
    -- cursor and the screen of the terminal model after the whole session (initial prompt, the redisplay
    -- of the empty buffer, of A, of B)
    let wd := w.toNat?.getD 80
    let prompt : List Nat := parseNats pr
    let sec : List Nat := [9492, 32]
    let a := parseNats la
    let b := parseNats lb
    let posA := pa.toNat?.getD 0
    let posB := pb.toNat?.getD 0
    let rowA := (Disp.coordsCursor wd a posA prompt.length).2
    let t0 : Term := { w := wd, cell := fun _ _ => 32, x := 0, y := 0, pw := false }
    let toks0 := (if prompt.isEmpty then [] else [Disp.Tk.text prompt]) ++ Disp.refresh wd prompt sec 0 true [] 0
    let toksA := Disp.refresh wd prompt sec 0 false a posA
    let toksB := Disp.refresh wd prompt sec rowA false b posB
    let t := ((t0.run toks0).run toksA).run toksB
    let rows := (List.range 60).map fun r => (List.range wd).map fun c => t.cell r c
    let trimmed := rows.map fun row => (row.reverse.dropWhile (· == 32)).reverse
    let lastNon := (trimmed.zipIdx.filter fun (row, _) => !row.isEmpty).map (·.2)
    let n := match lastNon.getLast? with | some i => i + 1 | none => 0
    let scr := "/".intercalate ((trimmed.take n).map showNats)
    " ".intercalate (toksB.map Disp.showTk ++ [s!"XY:{t.nx},{t.ny}", s!"SCR:{scr}"])
  | ["cpr", bytes] =>
    -- what is read from the terminal: the cursor report handed over (the last one), and the keys left
    let l := parseNats bytes
    let r := Cpr.extract (l.length + 1) l
    s!"{match r.1 with | some c => showNats c | none => "-"} {showNats r.2}"
  | ["comp", l, cp, v] =>
    let line := parseNats l
    let cpos : Int := cp.toInt?.getD 0
    match (do
        let pfx ← Comp.setPrefix line cpos
        let (l2, c2) ← Comp.insertCandidate line cpos pfx (parseNats v)
        pure (pfx, l2, c2) : Core.G _) with
    | .ok (pfx, l2, c2) => s!"ok {showNats pfx} {showNats l2} {c2}"
    | .error e => e.show
  | ["compseq", l, cp, ops] =>
    -- the two lines of the completion engine under a sequence of operations; after each one the
    -- visible line and cursor, the real line and cursor
    Id.run do
      let mut s : CompLine.St := { line := parseNats l, cur := cp.toInt?.getD 0 }
      let mut out : List String := []
      for op in parseList ops "," do
        let r : Core.G CompLine.St := match op.splitOn ":" with
          | ["g"] => CompLine.prepare (CompLine.clearMenu s)
          | ["s", v] => CompLine.select s (parseNats v)
          | ["x"] => pure (CompLine.cancel s true)
          | ["k"] => pure (CompLine.clearMenu (CompLine.cancel s false))
          | ["u", v] => CompLine.accept s (parseNats v)
          | ["e", c] => CompLine.edit s (c.toNat?.getD 97)
          | _ => pure s
        match r with
        | .ok s' =>
          s := s'
          let v := CompLine.visible s
          out := out ++ [s!"{showNats v.1}@{v.2}/{showNats s.line}@{CompLine.clamp s.line s.cur}"]
        | .error e => out := out ++ [e.show]; break
      return " ".intercalate out
  | ["killr", l, cp, kind, a, b] =>
    -- kill-region on a selection made with MarkRange(a, b) ("range") or Mark(a) ("mark"), then yank
    let line := parseNats l
    let ai : Int := a.toInt?.getD 0
    let bi : Int := b.toInt?.getD 0
    let sel : Sel.S := if kind == "range" then Sel.markRange line {} ai bi else Sel.mark line {} ai
    let s0 : Kill.St := { line := line, cur := ⟨cp.toInt?.getD 0, -1⟩, sel := sel }
    match (do
        let s1 ← Kill.killRegion s0
        let c1 := Core.checkAppend s1.line s1.cur
        let s2 ← Kill.yank { s1 with cur := c1 }
        pure (s1.line, c1.pos, s1.kill, s2.line) : Core.G _) with
    | .ok (l1, c1, k, l2) => s!"ok {showNats l1} {c1} {showNats k} {showNats l2}"
    | .error e => e.show
  | ["move", cmd, n, l, cp] =>
    let s0 : Kill.St := { line := parseNats l, cur := ⟨cp.toInt?.getD 0, -1⟩ }
    let k : Int := n.toInt?.getD 1
    let r : Core.G Kill.St := match cmd with
      | "forward-char" => Move.forwardChar s0 k
      | "backward-char" => Move.backwardChar s0 k
      | "forward-word" => Move.forwardWord s0 k
      | "backward-word" => Move.backwardWord s0 k
      | "beginning-of-line" => Move.beginningOfLine s0
      | "end-of-line" => Move.endOfLine s0
      | _ => pure s0
    match r with
    | .ok s1 => s!"ok {showNats s1.line} {(Core.checkAppend s1.line s1.cur).pos}"
    | .error e => e.show
  | ["loop", flags, regs, mtbl, ltbl, chunks] =>
    -- the whole main loop on probe commands and bind macros: flags = emacs, nonInc, isearch;
    -- table entries seq:action:macro, the action of a macro given as its runes
    let parseTbl (t : String) : List (List Nat × Bind) := (parseList t ";").filterMap fun ent =>
      match ent.splitOn ":" with
      | [rs, act, m] => some (parseNats rs,
          if m == "1" then ⟨String.ofList ((parseNats act).map Char.ofNat), true⟩ else ⟨if act == "_" then "" else act, false⟩)
      | _ => none
    let fl := flags.toList
    let em := fl.getD 0 '1' == '1'
    let e : Eng := { mainTbl := norm (parseTbl mtbl), isEmacs := em, viInsert := !em, registered := parseList regs ",",
                     nonInc := fl.getD 1 '0' == '1' }
    let C : MLoop.Cmds := { run := fun b cmd s => if cmd then { s with log := s.log ++ [(b.action, s.eng.keys.matched)] } else s }
    let s0 : MLoop.LS := { eng := e, ltbl := norm (parseTbl ltbl), isearch := fl.getD 2 '0' == '1' }
    let (s, ok) := MLoop.session C 400 ((parseList chunks ",").map parseNats) s0
    let evs := s.log.map fun (a, ks) => s!"{a}/{showNats ks}"
    " ".intercalate (evs ++ [if ok then s!"END/{s.eng.keys.buf.length + s.eng.keys.mkeys.length}" else "FUEL"])
  | ["loopsess", em, regs, mtbl, chunks] =>
    -- the main loop against a real Readline call: probe commands, macros, self-insert, accept-line
    let parseTbl (t : String) : List (List Nat × Bind) := (parseList t ";").filterMap fun ent =>
      match ent.splitOn ":" with
      | [rs, act, m] => some (parseNats rs,
          if m == "1" then ⟨String.ofList ((parseNats act).map Char.ofNat), true⟩ else ⟨if act == "_" then "" else act, false⟩)
      | _ => none
    -- em: "1" / "0" (Emacs / Vi insert), followed by "m" when output-meta is on (self-insert does not quote)
    let emacs := em.startsWith "1"
    let om := em.endsWith "m"
    let e : Eng := { mainTbl := norm (parseTbl mtbl), isEmacs := emacs, viInsert := !emacs, registered := parseList regs "," }
    let C : MLoop.Cmds := { run := fun b cmd s =>
      if !cmd then s
      else if b.action == "accept-line" then { s with done := true }
      else if b.action == "self-insert" || b.action.startsWith "verif-probe-" then
        { s with log := s.log ++ [(b.action, s.eng.keys.matched)] }
      -- any other command of the default keymaps (type-ahead and fed keys can combine into one, C-x C-x for
      -- instance): it may move the cursor or edit, which this model of the loop does not follow
      else if b.action == "yank" then s      -- C-y: nothing has been killed, nothing is yanked
      else { s with log := s.log ++ [("~other:" ++ b.action, [])] } }
    let (s, ok) := MLoop.session C 3000 ((parseList chunks ",").map parseNats) { eng := e }
    let hex2 (n : Nat) : String := String.ofList [Nat.digitChar (n / 16 % 16), Nat.digitChar (n % 16)]
    let hex (l : List Nat) : String := String.join ((utf8 l).map hex2)
    let probes := (s.log.filter fun (a, _) => a != "self-insert" && !a.startsWith "~other").map fun (a, ks) => s!"{a}:{hex ks}"
    let others := (s.log.filter fun (a, _) => a.startsWith "~other").map fun (a, _) => (a.drop 7).toString
    let other := !others.isEmpty
    let line := (s.log.filter fun (a, _) => a == "self-insert").flatMap fun (_, ks) =>
      (ks.take 1).flatMap fun k => if om && k != 0x1b then [k] else Loop.quote k
    -- after such a command only the characters inserted are compared, not where
    let last := if !ok then "FUEL" else if s.done then
        (if other then s!"line~:{",".intercalate others.eraseDups}" else s!"line:{hex line}") else "blocked"
    " ".intercalate (probes ++ [last])
  | ["local", emacs, isearch, regs, tbl, chunks] =>
    let table : List (List Nat × Bind) := (parseList tbl ";").filterMap fun ent =>
      match ent.splitOn ":" with
      | [rs, act, m] => some (parseNats rs, ⟨if act == "_" then "" else act, m == "1"⟩)
      | _ => none
    let e0 : Eng := { isEmacs := emacs == "1", registered := parseList regs "," }
    let lt := norm table
    " ".intercalate (localLoop e0 lt (isearch == "1") ((parseList chunks ",").map parseNats) 12 [])
  | ["accept", w, l, pos] =>
    -- the tokens of AcceptLine, and where they leave the cursor of the terminal model when run from the
    -- cursor position of the last redisplay (prompt on row 0)
    let wd := w.toNat?.getD 80
    let toks := Disp.acceptLine wd [62, 32] (parseNats l) (pos.toNat?.getD 0)
    let cc := Disp.coordsCursor wd (parseNats l) (pos.toNat?.getD 0) 2
    let t0 : Term := { w := wd, cell := fun _ _ => 32, x := cc.1, y := cc.2, pw := false }
    let t1 := t0.run toks
    " ".intercalate (toks.map Disp.showTk ++ [s!"XY:{t1.x},{t1.y}"])
  | ["kill", cmd, l, cp] =>
    let s0 : Kill.St := { line := parseNats l, cur := ⟨cp.toInt?.getD 0, -1⟩ }
    let r : Core.G Kill.St := match cmd with
      | "kill-line" => Kill.killLine s0
      | "backward-kill-line" => Kill.backwardKillLine s0
      | "backward-kill-word" => Kill.backwardKillWord s0
      | "kill-whole-line" => Kill.killWholeLine s0
      | _ => pure s0
    match (do
        let s1 ← r
        let c1 := Core.checkAppend s1.line s1.cur     -- post-command check (emacs)
        let s2 ← Kill.yank { s1 with cur := c1 }
        pure (s1.line, c1.pos, s1.kill, s2.line) : Core.G _) with
    | .ok (l1, c1, k, l2) => s!"ok {showNats l1} {c1} {showNats k} {showNats l2}"
    | .error e => e.show
  | ["parse", flags, mode, term, app, files, bytes] =>
    -- flags: two characters, haltOnErr and strict; files: name=bytes;name=bytes
    let o : Inputrc.Opts := { haltOnErr := flags.startsWith "1", strict := flags.endsWith "1",
                              mode := parseNats mode, term := parseNats term, app := parseNats app }
    let fs : List (Inputrc.Str × List Nat) := (parseList files ";").filterMap (fun f =>
      match f.splitOn "=" with
      | [n, b] => some (parseNats n, parseNats b)
      | _ => none)
    let vars0 : List (Inputrc.Str × Inputrc.Val) :=
      [(Inputrc.str "bell-style", .s (Inputrc.str "audible")), (Inputrc.str "completion-query-items", .i 100),
       (Inputrc.str "blink-matching-paren", .b false)]
    let c0 : Inputrc.Cfg := { vars := vars0, files := fs }
    let showVal : Inputrc.Val → String
      | .b v => s!"b:{if v then 1 else 0}" | .s v => s!"s:{showNats v}" | .i v => s!"i:{v}"
    let showCall : Inputrc.Call → String
      | .bind km sq a m => s!"bind,{showNats km},{showNats sq},{showNats a},{if m then 1 else 0}"
      | .set n v => s!"set,{showNats n},{showVal v}"
      | .do_ k v => s!"do,{showNats k},{showNats v}"
      | .read n => s!"read,{showNats n}"
    match Inputrc.parse Inputrc.cfgHandler o (parseNats bytes) c0 with
    | .error e => e.show
    | .ok (c, errs, ret) =>
      let cs := if c.calls.isEmpty then "-" else "|".intercalate (c.calls.map showCall)
      let es := if errs.isEmpty then "-" else ",".intercalate (errs.map Inputrc.EKind.name)
      let rs := match ret with | none => "-" | some k => k.name
      s!"ok {cs} errs={es} ret={rs}"
  | ["unesc", rs] => showNats (RLV.Esc.unescape (parseNats rs))
  | ["esc", mac, rs] => showNats (RLV.Esc.escape (mac == "1") (parseNats rs))
  | _ => "bad-op"

partial def loop (h : IO.FS.Stream) : IO Unit := do
  let line ← h.getLine
  if line.isEmpty then return ()
  IO.println (step line)
  loop h

def main : IO Unit := do loop (← IO.getStdin)
